//! C10 / C08 — the committer's reorder buffer: exactly once, creation order, whole-batch
//! epoch-contiguous physical commits, for every arrival order x grouping decision x shutdown flag.
use crate::common::*;
use crate::kv_database::{self as kv, KvDatabase};
use crate::write_manager::write_behind::verif::{drive_reorder_buffer, write_task_cmp};

const MAXN: usize = 4;

// ---- recorder database (harness KvDatabase): single-threaded global state ----
static mut QV_LOG: u64 = 0; // epochs in the order they became durable, 4 bits each
static mut QV_LOG_LEN: usize = 0;
static mut QV_COMMITS: u64 = 0; // QV_LOG_LEN after each physical commit, 4 bits each
static mut QV_N_COMMITS: usize = 0;
static mut QV_STORE0: u8 = 0xFF; // key 0 -> last value (content model)
static mut QV_STORE1: u8 = 0xFF; // key 1 -> last value
static mut QV_KEYOF: u8 = 0; // bit e = key written by batch e
static mut QV_NOTIFIED: usize = 0; // after-commit notifications
static mut QV_NOTIFY_BEFORE_DURABLE: bool = false;
static mut QV_N_HANDED: usize = 0;
static mut QV_GROUP: u8 = 0;
static mut QV_CALLS: u8 = 0; // logical batches handed to an (open) physical batch

#[derive(Clone, Copy)]
pub struct RecDb;
pub struct RecBuf { pub epoch: u8 }
pub struct RecBatch { items: [u8; MAXN], n: usize }
pub struct NoIter<C>(std::marker::PhantomData<C>);
impl<C: kv::KeyOfSetColumn> Iterator for NoIter<C> { type Item = C::Element; fn next(&mut self) -> Option<C::Element> { None } }
unsafe impl<C> Send for NoIter<C> {}

impl kv::SerializationBuffer for RecBuf {
    fn put<W: kv::WideColumn, C: kv::WideColumnValue<W>>(&mut self, _k: &W::Key, _v: &C) {}
    fn delete<W: kv::WideColumn, C: kv::WideColumnValue<W>>(&mut self, _k: &W::Key) {}
    fn insert_member<C: kv::KeyOfSetColumn>(&mut self, _k: &C::Key, _v: &C::Element) {}
    fn delete_member<C: kv::KeyOfSetColumn>(&mut self, _k: &C::Key, _v: &C::Element) {}
}
impl kv::WriteBatch for RecBatch {
    type SerializationBuffer = RecBuf;
    fn put<W: kv::WideColumn, C: kv::WideColumnValue<W>>(&mut self, _k: &W::Key, _v: &C) {}
    fn delete<W: kv::WideColumn, C: kv::WideColumnValue<W>>(&mut self, _k: &W::Key) {}
    fn insert_member<C: kv::KeyOfSetColumn>(&mut self, _k: &C::Key, _v: &C::Element) {}
    fn delete_member<C: kv::KeyOfSetColumn>(&mut self, _k: &C::Key, _v: &C::Element) {}
    fn consume_serialization_buffer(&mut self, b: RecBuf) {
        assert!(self.n < MAXN, "recorder capacity");
        self.items[self.n] = b.epoch;
        self.n += 1;
        unsafe { QV_N_HANDED += 1; }
    }
    fn commit(self) {
        unsafe {
            let mut i = 0;
            while i < self.n {
                let e = self.items[i];
                QV_LOG |= (e as u64) << (4 * QV_LOG_LEN);
                QV_LOG_LEN += 1;
                if (QV_KEYOF >> e) & 1 == 0 { QV_STORE0 = e; } else { QV_STORE1 = e; }
                i += 1;
            }
            QV_COMMITS |= (QV_LOG_LEN as u64) << (4 * QV_N_COMMITS);
            QV_N_COMMITS += 1;
        }
    }
    // the grouping of logical into physical batches: bit i of QV_GROUP answers the i-th call
    fn should_write_more(&self) -> bool {
        unsafe {
            let r = (QV_GROUP >> QV_CALLS) & 1 == 1;
            QV_CALLS += 1;
            r
        }
    }
}
impl KvDatabase for RecDb {
    type WriteBatch = RecBatch;
    type SerializationBuffer = RecBuf;
    type ScanMemberIterator<C: kv::KeyOfSetColumn> = NoIter<C>;
    fn get_wide_column<W: kv::WideColumn, C: kv::WideColumnValue<W>>(&self, _k: &W::Key) -> Option<C> { None }
    fn scan_members<C: kv::KeyOfSetColumn>(&self, _k: &C::Key) -> NoIter<C> { NoIter(std::marker::PhantomData) }
    fn write_batch(&self) -> RecBatch { RecBatch { items: [0; MAXN], n: 0 } }
    fn serialization_buffer(&self) -> RecBuf { RecBuf { epoch: 0 } }
}

/// stub for `crossbeam_channel::Sender::send`: counts notifications and checks they are only sent
/// for batches that are already durable (the message itself is forgotten: its Drop asserts !active)
pub fn send_stub<T>(_s: &crossbeam_channel::Sender<T>, msg: T) -> Result<(), crossbeam_channel::SendError<T>> {
    unsafe {
        QV_NOTIFIED += 1;
        if QV_NOTIFIED > QV_LOG_LEN { QV_NOTIFY_BEFORE_DURABLE = true; }
    }
    std::mem::forget(msg);
    Ok(())
}

macro_rules! h {
    ($name:ident, $unw:expr, $body:block) => {
        #[kani::proof]
        #[kani::unwind($unw)]
        #[kani::stub(std::hash::RandomState::new, rs_stub)]
        #[kani::stub(alloc::fmt::format, fmt_stub)]
        #[kani::stub(crossbeam_channel::Sender::send, send_stub)]
        fn $name() $body
    };
}

fn log_at(j: usize) -> usize { unsafe { ((QV_LOG >> (4 * j)) & 0xF) as usize } }
fn commit_at(j: usize) -> usize { unsafe { ((QV_COMMITS >> (4 * j)) & 0xF) as usize } }
fn any_perm<const N: usize>() -> [u8; N] {
    let p: [u8; N] = kani::any();
    let mut seen = [false; N];
    let mut i = 0;
    while i < N {
        kani::assume((p[i] as usize) < N);
        kani::assume(!seen[p[i] as usize]);
        seen[p[i] as usize] = true;
        i += 1;
    }
    p
}

fn run<const N: usize>() -> ([u8; N], bool) {
    // every grouping of logical into physical batches is a solver choice (one bit per decision)
    unsafe { QV_GROUP = kani::any(); }
    run_with(any_perm::<N>())
}
fn run_with<const N: usize>(perm: [u8; N]) -> ([u8; N], bool) { run_with2(perm, kani::any()) }
fn run_with2<const N: usize>(perm: [u8; N], shutting_down: bool) -> ([u8; N], bool) {
    let mut model = [0xFFu8; 2];
    let mut i = 0;
    while i < N {
        let k: u8 = kani::any();
        kani::assume(k < 2);
        unsafe { QV_KEYOF |= k << i; }
        model[k as usize] = i as u8; // sequential application in creation order
        i += 1;
    }
    let arrivals: [(u64, RecBuf); N] = std::array::from_fn(|j| (perm[j] as u64, RecBuf { epoch: perm[j] }));
    let delivered = drive_reorder_buffer(&RecDb, arrivals, shutting_down);
    unsafe {
        // under Kani the stub of `Sender::send` counts; in a native replay the real channel does
        QV_NOTIFIED += delivered;
        // C10: exactly once, in creation order, all durable when the committer returns
        assert!(QV_LOG_LEN == N, "every submitted batch reached the store exactly once");
        let mut j = 0;
        while j < N {
            assert!(log_at(j) == j, "batches become durable in creation (epoch) order");
            j += 1;
        }
        assert!(QV_STORE0 == model[0] && QV_STORE1 == model[1], "final content = sequential application in creation order");
        // C08: every physical commit extends the durable prefix by whole logical batches
        assert!(QV_N_COMMITS >= 1 && commit_at(QV_N_COMMITS - 1) == N, "last physical commit reaches the last batch");
        j = 1;
        while j < QV_N_COMMITS {
            assert!(commit_at(j - 1) <= commit_at(j), "durable prefix never shrinks");
            j += 1;
        }
        assert!(QV_N_HANDED == N, "each logical batch was handed to exactly one physical batch");
        // notifications
        assert!(!QV_NOTIFY_BEFORE_DURABLE, "after-commit notification only after the batch is durable");
        if shutting_down { assert!(QV_NOTIFIED == 0, "no notifications while shutting down"); } else { assert!(QV_NOTIFIED == N, "one notification per batch"); }
    }
    (perm, shutting_down)
}

/// one instance per (arrival order, grouping of logical into physical batches): the schedule is
/// enumerated exhaustively (n! * 2^n instances), everything else (shutdown flag, batch contents) is
/// symbolic.  A single harness with a symbolic schedule was tried first: CBMC cannot merge the heap
/// states of different schedules (n = 2 exhausted 62 GB), see DESIGN.md C10.
macro_rules! sched {
    ($name:ident, $n:expr, $perm:expr, $group:expr) => {
        h!($name, 7, {
            unsafe { QV_GROUP = $group; }
            let (_p, sd) = run_with::<$n>($perm);
            kani::cover!(sd, "shutting down");
            kani::cover!(!sd, "not shutting down");
            kani::cover!(unsafe { QV_STORE0 } != 0xFF && unsafe { QV_STORE1 } != 0xFF, "both keys written");
        });
    };
}
sched!(c10_q_sched_n2_p01_g00, 2, [0, 1], 0b00);
sched!(c10_q_sched_n2_p01_g01, 2, [0, 1], 0b01);
sched!(c10_q_sched_n2_p01_g10, 2, [0, 1], 0b10);
sched!(c10_q_sched_n2_p01_g11, 2, [0, 1], 0b11);
sched!(c10_q_sched_n2_p10_g00, 2, [1, 0], 0b00);
sched!(c10_q_sched_n2_p10_g01, 2, [1, 0], 0b01);
sched!(c10_q_sched_n2_p10_g10, 2, [1, 0], 0b10);
sched!(c10_q_sched_n2_p10_g11, 2, [1, 0], 0b11);
sched!(c10_t_sched_n3_p012_g000, 3, [0, 1, 2], 0b000);
sched!(c10_t_sched_n3_p012_g001, 3, [0, 1, 2], 0b001);
sched!(c10_t_sched_n3_p012_g010, 3, [0, 1, 2], 0b010);
sched!(c10_t_sched_n3_p012_g011, 3, [0, 1, 2], 0b011);
sched!(c10_t_sched_n3_p012_g100, 3, [0, 1, 2], 0b100);
sched!(c10_t_sched_n3_p012_g101, 3, [0, 1, 2], 0b101);
sched!(c10_t_sched_n3_p012_g110, 3, [0, 1, 2], 0b110);
sched!(c10_t_sched_n3_p012_g111, 3, [0, 1, 2], 0b111);
sched!(c10_t_sched_n3_p021_g000, 3, [0, 2, 1], 0b000);
sched!(c10_t_sched_n3_p021_g001, 3, [0, 2, 1], 0b001);
sched!(c10_t_sched_n3_p021_g010, 3, [0, 2, 1], 0b010);
sched!(c10_t_sched_n3_p021_g011, 3, [0, 2, 1], 0b011);
sched!(c10_t_sched_n3_p021_g100, 3, [0, 2, 1], 0b100);
sched!(c10_t_sched_n3_p021_g101, 3, [0, 2, 1], 0b101);
sched!(c10_t_sched_n3_p021_g110, 3, [0, 2, 1], 0b110);
sched!(c10_t_sched_n3_p021_g111, 3, [0, 2, 1], 0b111);
sched!(c10_t_sched_n3_p102_g000, 3, [1, 0, 2], 0b000);
sched!(c10_t_sched_n3_p102_g001, 3, [1, 0, 2], 0b001);
sched!(c10_t_sched_n3_p102_g010, 3, [1, 0, 2], 0b010);
sched!(c10_t_sched_n3_p102_g011, 3, [1, 0, 2], 0b011);
sched!(c10_t_sched_n3_p102_g100, 3, [1, 0, 2], 0b100);
sched!(c10_t_sched_n3_p102_g101, 3, [1, 0, 2], 0b101);
sched!(c10_t_sched_n3_p102_g110, 3, [1, 0, 2], 0b110);
sched!(c10_t_sched_n3_p102_g111, 3, [1, 0, 2], 0b111);
sched!(c10_q_sched_n3_p120_g000, 3, [1, 2, 0], 0b000);
sched!(c10_q_sched_n3_p120_g001, 3, [1, 2, 0], 0b001);
sched!(c10_q_sched_n3_p120_g010, 3, [1, 2, 0], 0b010);
sched!(c10_q_sched_n3_p120_g011, 3, [1, 2, 0], 0b011);
sched!(c10_q_sched_n3_p120_g100, 3, [1, 2, 0], 0b100);
sched!(c10_q_sched_n3_p120_g101, 3, [1, 2, 0], 0b101);
sched!(c10_q_sched_n3_p120_g110, 3, [1, 2, 0], 0b110);
sched!(c10_q_sched_n3_p120_g111, 3, [1, 2, 0], 0b111);
sched!(c10_q_sched_n3_p201_g000, 3, [2, 0, 1], 0b000);
sched!(c10_q_sched_n3_p201_g001, 3, [2, 0, 1], 0b001);
sched!(c10_q_sched_n3_p201_g010, 3, [2, 0, 1], 0b010);
sched!(c10_q_sched_n3_p201_g011, 3, [2, 0, 1], 0b011);
sched!(c10_q_sched_n3_p201_g100, 3, [2, 0, 1], 0b100);
sched!(c10_q_sched_n3_p201_g101, 3, [2, 0, 1], 0b101);
sched!(c10_q_sched_n3_p201_g110, 3, [2, 0, 1], 0b110);
sched!(c10_q_sched_n3_p201_g111, 3, [2, 0, 1], 0b111);
sched!(c10_q_sched_n3_p210_g000, 3, [2, 1, 0], 0b000);
sched!(c10_q_sched_n3_p210_g001, 3, [2, 1, 0], 0b001);
sched!(c10_q_sched_n3_p210_g010, 3, [2, 1, 0], 0b010);
sched!(c10_q_sched_n3_p210_g011, 3, [2, 1, 0], 0b011);
sched!(c10_q_sched_n3_p210_g100, 3, [2, 1, 0], 0b100);
sched!(c10_q_sched_n3_p210_g101, 3, [2, 1, 0], 0b101);
sched!(c10_q_sched_n3_p210_g110, 3, [2, 1, 0], 0b110);
sched!(c10_q_sched_n3_p210_g111, 3, [2, 1, 0], 0b111);
sched!(c10_t_sched_n4_p3210_g0000, 4, [3, 2, 1, 0], 0b0000);
sched!(c10_t_sched_n4_p3210_g0001, 4, [3, 2, 1, 0], 0b0001);
sched!(c10_t_sched_n4_p3210_g0010, 4, [3, 2, 1, 0], 0b0010);
sched!(c10_t_sched_n4_p3210_g0011, 4, [3, 2, 1, 0], 0b0011);
sched!(c10_t_sched_n4_p3210_g0100, 4, [3, 2, 1, 0], 0b0100);
sched!(c10_t_sched_n4_p3210_g0101, 4, [3, 2, 1, 0], 0b0101);
sched!(c10_t_sched_n4_p3210_g0110, 4, [3, 2, 1, 0], 0b0110);
sched!(c10_t_sched_n4_p3210_g0111, 4, [3, 2, 1, 0], 0b0111);
sched!(c10_t_sched_n4_p3210_g1000, 4, [3, 2, 1, 0], 0b1000);
sched!(c10_t_sched_n4_p3210_g1001, 4, [3, 2, 1, 0], 0b1001);
sched!(c10_t_sched_n4_p3210_g1010, 4, [3, 2, 1, 0], 0b1010);
sched!(c10_t_sched_n4_p3210_g1011, 4, [3, 2, 1, 0], 0b1011);
sched!(c10_t_sched_n4_p3210_g1100, 4, [3, 2, 1, 0], 0b1100);
sched!(c10_t_sched_n4_p3210_g1101, 4, [3, 2, 1, 0], 0b1101);
sched!(c10_t_sched_n4_p3210_g1110, 4, [3, 2, 1, 0], 0b1110);
sched!(c10_t_sched_n4_p3210_g1111, 4, [3, 2, 1, 0], 0b1111);
sched!(c10_t_sched_n4_p1230_g0000, 4, [1, 2, 3, 0], 0b0000);
sched!(c10_t_sched_n4_p1230_g0001, 4, [1, 2, 3, 0], 0b0001);
sched!(c10_t_sched_n4_p1230_g0010, 4, [1, 2, 3, 0], 0b0010);
sched!(c10_t_sched_n4_p1230_g0011, 4, [1, 2, 3, 0], 0b0011);
sched!(c10_t_sched_n4_p1230_g0100, 4, [1, 2, 3, 0], 0b0100);
sched!(c10_t_sched_n4_p1230_g0101, 4, [1, 2, 3, 0], 0b0101);
sched!(c10_t_sched_n4_p1230_g0110, 4, [1, 2, 3, 0], 0b0110);
sched!(c10_t_sched_n4_p1230_g0111, 4, [1, 2, 3, 0], 0b0111);
sched!(c10_t_sched_n4_p1230_g1000, 4, [1, 2, 3, 0], 0b1000);
sched!(c10_t_sched_n4_p1230_g1001, 4, [1, 2, 3, 0], 0b1001);
sched!(c10_t_sched_n4_p1230_g1010, 4, [1, 2, 3, 0], 0b1010);
sched!(c10_t_sched_n4_p1230_g1011, 4, [1, 2, 3, 0], 0b1011);
sched!(c10_t_sched_n4_p1230_g1100, 4, [1, 2, 3, 0], 0b1100);
sched!(c10_t_sched_n4_p1230_g1101, 4, [1, 2, 3, 0], 0b1101);
sched!(c10_t_sched_n4_p1230_g1110, 4, [1, 2, 3, 0], 0b1110);
sched!(c10_t_sched_n4_p1230_g1111, 4, [1, 2, 3, 0], 0b1111);
sched!(c10_t_sched_n4_p0123_g0000, 4, [0, 1, 2, 3], 0b0000);
sched!(c10_t_sched_n4_p0123_g0001, 4, [0, 1, 2, 3], 0b0001);
sched!(c10_t_sched_n4_p0123_g0010, 4, [0, 1, 2, 3], 0b0010);
sched!(c10_t_sched_n4_p0123_g0011, 4, [0, 1, 2, 3], 0b0011);
sched!(c10_t_sched_n4_p0123_g0100, 4, [0, 1, 2, 3], 0b0100);
sched!(c10_t_sched_n4_p0123_g0101, 4, [0, 1, 2, 3], 0b0101);
sched!(c10_t_sched_n4_p0123_g0110, 4, [0, 1, 2, 3], 0b0110);
sched!(c10_t_sched_n4_p0123_g0111, 4, [0, 1, 2, 3], 0b0111);
sched!(c10_t_sched_n4_p0123_g1000, 4, [0, 1, 2, 3], 0b1000);
sched!(c10_t_sched_n4_p0123_g1001, 4, [0, 1, 2, 3], 0b1001);
sched!(c10_t_sched_n4_p0123_g1010, 4, [0, 1, 2, 3], 0b1010);
sched!(c10_t_sched_n4_p0123_g1011, 4, [0, 1, 2, 3], 0b1011);
sched!(c10_t_sched_n4_p0123_g1100, 4, [0, 1, 2, 3], 0b1100);
sched!(c10_t_sched_n4_p0123_g1101, 4, [0, 1, 2, 3], 0b1101);
sched!(c10_t_sched_n4_p0123_g1110, 4, [0, 1, 2, 3], 0b1110);
sched!(c10_t_sched_n4_p0123_g1111, 4, [0, 1, 2, 3], 0b1111);
sched!(c10_t_sched_n4_p2031_g0000, 4, [2, 0, 3, 1], 0b0000);
sched!(c10_t_sched_n4_p2031_g0001, 4, [2, 0, 3, 1], 0b0001);
sched!(c10_t_sched_n4_p2031_g0010, 4, [2, 0, 3, 1], 0b0010);
sched!(c10_t_sched_n4_p2031_g0011, 4, [2, 0, 3, 1], 0b0011);
sched!(c10_t_sched_n4_p2031_g0100, 4, [2, 0, 3, 1], 0b0100);
sched!(c10_t_sched_n4_p2031_g0101, 4, [2, 0, 3, 1], 0b0101);
sched!(c10_t_sched_n4_p2031_g0110, 4, [2, 0, 3, 1], 0b0110);
sched!(c10_t_sched_n4_p2031_g0111, 4, [2, 0, 3, 1], 0b0111);
sched!(c10_t_sched_n4_p2031_g1000, 4, [2, 0, 3, 1], 0b1000);
sched!(c10_t_sched_n4_p2031_g1001, 4, [2, 0, 3, 1], 0b1001);
sched!(c10_t_sched_n4_p2031_g1010, 4, [2, 0, 3, 1], 0b1010);
sched!(c10_t_sched_n4_p2031_g1011, 4, [2, 0, 3, 1], 0b1011);
sched!(c10_t_sched_n4_p2031_g1100, 4, [2, 0, 3, 1], 0b1100);
sched!(c10_t_sched_n4_p2031_g1101, 4, [2, 0, 3, 1], 0b1101);
sched!(c10_t_sched_n4_p2031_g1110, 4, [2, 0, 3, 1], 0b1110);
sched!(c10_t_sched_n4_p2031_g1111, 4, [2, 0, 3, 1], 0b1111);

h!(c10_q_task_order, 2, {
    let (a, b): (u64, u64) = (kani::any(), kani::any());
    let o = write_task_cmp::<RecDb>((a, RecBuf { epoch: 0 }), (b, RecBuf { epoch: 0 }));
    assert!(o == b.cmp(&a), "WriteTask order is the reverse epoch order (max-heap pops the smallest epoch)");
    kani::cover!(a < b, "a older");
    kani::cover!(a == b, "equal");
});

// fully symbolic schedule: arrival permutation and grouping bits are solver variables
h!(c10_t_symbolic_n2, 7, {
    let (p, sd) = run::<2>();
    kani::cover!(p[0] == 1, "batch 1 arrives before batch 0");
    kani::cover!(commit_at(0) == 2, "both logical batches in one physical commit");
    kani::cover!(unsafe { QV_N_COMMITS } >= 3, "one commit per batch plus the final flush");
    kani::cover!(sd, "shutting down");
});
// twins
h!(c10_xq_sched_twin, 7, {
    unsafe { QV_GROUP = 0b01; }
    let (_p, sd) = run_with::<2>([1, 0]);
    assert!(unsafe { QV_NOTIFIED } == 2, "TWIN deliberately wrong: notifications are sent even while shutting down");
});

include!("gen/playback_c10.rs");
