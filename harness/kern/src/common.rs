//! Standing stubs for the kern crate.
pub fn rs_stub() -> std::hash::RandomState {
    unsafe { std::mem::transmute::<[u64; 2], std::hash::RandomState>([1, 2]) }
}
pub fn fmt_stub(_args: std::fmt::Arguments<'_>) -> String { String::new() }

// parking_lot slow paths: unreachable in a sequential harness (reaching one = self-deadlock)
pub fn pl_rw_lock_exclusive_slow(_l: &parking_lot::RawRwLock, _t: Option<std::time::Instant>) -> bool { panic!("would block: RwLock exclusive") }
pub fn pl_rw_unlock_exclusive_slow(_l: &parking_lot::RawRwLock, _f: bool) { panic!("unlock slow path") }
pub fn pl_rw_lock_shared_slow(_l: &parking_lot::RawRwLock, _r: bool, _t: Option<std::time::Instant>) -> bool { panic!("would block: RwLock shared") }
pub fn pl_rw_unlock_shared_slow(_l: &parking_lot::RawRwLock) { panic!("unlock slow path") }
pub fn pl_mx_lock_slow(_l: &parking_lot::RawMutex, _t: Option<std::time::Instant>) -> bool { panic!("would block: Mutex") }
pub fn pl_mx_unlock_slow(_l: &parking_lot::RawMutex, _f: bool) { panic!("unlock slow path") }
