//! C09 — key-of-set staging overlay (items cut from key_of_set_map/cache.rs): what a read sees
//! when the cache entry is absent or spilled = store scan merged with the staged log.  Must equal
//! the sequential result of all inserts/removes issued so far, however far the writer has got.
use crate::common::*;
use crate::kv_database::{self as kv, KeyOfSetColumn, KvDatabase};
use crate::write_manager::write_behind::Epoch;
use qbice_stable_type_id::Identifiable;
use std::sync::atomic::{AtomicU8, Ordering};
use std::sync::Arc;

#[path = "gen/kos_cache.rs"]
pub mod kos;
use kos::{verif, ConcurrentSet};

const NE: u8 = 3; // element domain {0,1,2}

#[derive(Identifiable)]
#[stable_type_id_crate(qbice_stable_type_id)]
pub struct Col;
impl KeyOfSetColumn for Col { type Key = u8; type Element = u8; }

// the store: members of the one key under test, as a bit mask (scalar static, see DESIGN §2)
static mut QV9_STORE: u8 = 0;

/// harness ConcurrentSet: bit mask behind an Arc (cheap clone, shared like Arc<DashSet>)
#[derive(Clone, Default)]
pub struct BitSet(Arc<AtomicU8>);
pub struct BitIter { m: u8, next: u8 }
impl Iterator for BitIter {
    type Item = u8;
    fn next(&mut self) -> Option<u8> {
        while self.next < 8 {
            let i = self.next;
            self.next += 1;
            if (self.m >> i) & 1 == 1 { return Some(i); }
        }
        None
    }
}
impl ConcurrentSet for BitSet {
    type Element = u8;
    type Iterator<'x> = BitIter;
    fn insert_element(&self, e: u8) -> bool { let o = self.0.load(Ordering::Relaxed); self.0.store(o | (1 << e), Ordering::Relaxed); (o >> e) & 1 == 0 }
    fn remove_element(&self, e: &u8) -> bool { let o = self.0.load(Ordering::Relaxed); self.0.store(o & !(1 << *e), Ordering::Relaxed); (o >> *e) & 1 == 1 }
    fn len(&self) -> usize { self.0.load(Ordering::Relaxed).count_ones() as usize }
    fn iter(&self) -> BitIter { BitIter { m: self.0.load(Ordering::Relaxed), next: 0 } }
}

#[derive(Clone, Copy)]
pub struct Db;
pub struct NoBuf;
pub struct NoBatch;
impl kv::SerializationBuffer for NoBuf {
    fn put<W: kv::WideColumn, C: kv::WideColumnValue<W>>(&mut self, _k: &W::Key, _v: &C) {}
    fn delete<W: kv::WideColumn, C: kv::WideColumnValue<W>>(&mut self, _k: &W::Key) {}
    fn insert_member<C: KeyOfSetColumn>(&mut self, _k: &C::Key, _v: &C::Element) {}
    fn delete_member<C: KeyOfSetColumn>(&mut self, _k: &C::Key, _v: &C::Element) {}
}
impl kv::WriteBatch for NoBatch {
    type SerializationBuffer = NoBuf;
    fn put<W: kv::WideColumn, C: kv::WideColumnValue<W>>(&mut self, _k: &W::Key, _v: &C) {}
    fn delete<W: kv::WideColumn, C: kv::WideColumnValue<W>>(&mut self, _k: &W::Key) {}
    fn insert_member<C: KeyOfSetColumn>(&mut self, _k: &C::Key, _v: &C::Element) {}
    fn delete_member<C: KeyOfSetColumn>(&mut self, _k: &C::Key, _v: &C::Element) {}
    fn consume_serialization_buffer(&mut self, _b: NoBuf) {}
    fn commit(self) {}
}
/// scan of the store: only instantiated for `Col` (Element = u8)
pub struct Scan<C> { it: BitIter, _p: std::marker::PhantomData<C> }
impl<C: KeyOfSetColumn> Iterator for Scan<C> {
    type Item = C::Element;
    fn next(&mut self) -> Option<C::Element> {
        let b = self.it.next()?;
        // C::Element is u8 for the only column used here
        let any: Box<dyn std::any::Any> = Box::new(b);
        match any.downcast::<C::Element>() { Ok(x) => Some(*x), Err(_) => None }
    }
}
unsafe impl<C> Send for Scan<C> {}
impl KvDatabase for Db {
    type WriteBatch = NoBatch;
    type SerializationBuffer = NoBuf;
    type ScanMemberIterator<C: KeyOfSetColumn> = Scan<C>;
    fn get_wide_column<W: kv::WideColumn, C: kv::WideColumnValue<W>>(&self, _k: &W::Key) -> Option<C> { None }
    fn scan_members<C: KeyOfSetColumn>(&self, _k: &C::Key) -> Scan<C> { Scan { it: BitIter { m: unsafe { QV9_STORE }, next: 0 }, _p: std::marker::PhantomData } }
    fn write_batch(&self) -> NoBatch { NoBatch }
    fn serialization_buffer(&self) -> NoBuf { NoBuf }
}

macro_rules! h {
    ($name:ident, $unw:expr, $body:block) => {
        #[kani::proof]
        #[kani::unwind($unw)]
        #[kani::stub(std::hash::RandomState::new, rs_stub)]
        #[kani::stub(alloc::fmt::format, fmt_stub)]
        #[kani::stub(parking_lot::RawRwLock::lock_exclusive_slow, pl_rw_lock_exclusive_slow)]
        #[kani::stub(parking_lot::RawRwLock::unlock_exclusive_slow, pl_rw_unlock_exclusive_slow)]
        #[kani::stub(parking_lot::RawRwLock::lock_shared_slow, pl_rw_lock_shared_slow)]
        #[kani::stub(parking_lot::RawRwLock::unlock_shared_slow, pl_rw_unlock_shared_slow)]
        fn $name() $body
    };
}

#[derive(Clone, Copy)]
struct Step { insert: bool, elem: u8, epoch: u64 }

/// Stage `N` symbolic operations (non-decreasing epochs, i.e. batches filled in creation order),
/// let the writer make a symbolic prefix durable, then read through both miss paths.
fn scenario<const N: usize>(flush_between: bool) -> (u8, u8, u8) {
    let db0: u8 = kani::any();
    kani::assume(db0 < (1 << NE));
    let mut steps = [Step { insert: true, elem: 0, epoch: 0 }; N];
    let mut e = 0u64;
    let mut i = 0;
    while i < N {
        let ins: bool = kani::any();
        let el: u8 = kani::any();
        kani::assume(el < NE);
        let bump: bool = kani::any();
        if i > 0 && bump { e += 1; }
        steps[i] = Step { insert: ins, elem: el, epoch: e };
        i += 1;
    }
    // how far the background writer has got: everything with epoch <= f is durable (f = -1: nothing)
    let f: i8 = kani::any();
    kani::assume(f >= -1 && (f as i64) <= e as i64);
    // the moment the flush notification reaches the log: after step `at` (N = after all of them)
    let at: usize = if flush_between { kani::any() } else { N };
    kani::assume(at <= N);

    let log = verif::new_log::<u8>();
    let mut store = db0;
    let mut oracle = db0;
    i = 0;
    while i < N {
        let s = steps[i];
        let op = if s.insert { verif::op_insert(s.elem) } else { verif::op_remove(s.elem) };
        kos::stage_op(&log, op, Epoch(s.epoch));
        if s.insert { oracle |= 1 << s.elem; } else { oracle &= !(1 << s.elem); }
        if f >= 0 && (s.epoch as i64) <= f as i64 {
            // durable: the store applies the batches in creation order (C10)
            if s.insert { store |= 1 << s.elem; } else { store &= !(1 << s.elem); }
        }
        if i + 1 == at && f >= 0 {
            // only a flush up to an epoch whose operations are all staged can be announced
            let mut ok = true;
            let mut j = i + 1;
            while j < N { if (steps[j].epoch as i64) <= f as i64 { ok = false; } j += 1; }
            kani::assume(ok);
            kos::flush_log(&log, Epoch(f as u64));
        }
        i += 1;
    }
    if at == N && f >= 0 { kos::flush_log(&log, Epoch(f as u64)); }
    unsafe { QV9_STORE = store; }

    // path 1: cache miss -> fetch_entry (store scan + snapshot) -> in-memory set
    let map = kos::CacheKeyOfSetMap::<Col, BitSet, Db> { db: Db, _p: std::marker::PhantomData };
    let snap = verif::snapshot(&log);
    let mut spilled = None;
    let entry = map.fetch_entry(&0u8, &snap, &mut spilled);
    let view1 = match verif::entry_is_in_memory(&entry) { Some(set) => set.0.load(Ordering::Relaxed), None => 0xFF };
    // path 2: spilled set -> streaming merge of the store scan with the snapshot
    let snap2 = verif::snapshot(&log);
    let mut view2 = 0u8;
    let mut it = verif::streaming::<BitSet, _, u8>(Db.scan_members::<Col>(&0u8), snap2);
    let mut guard = 0;
    while let Some(x) = it.next() {
        view2 |= 1 << x;
        guard += 1;
        if guard > 8 { break; }
    }
    std::mem::forget((log, entry, snap, it, spilled));
    assert!(view1 == oracle, "read after a cache miss = all inserts/removes issued so far (fetch path)");
    assert!(view2 == oracle, "read of a spilled set = all inserts/removes issued so far (streaming path)");
    (db0, oracle, store)
}

h!(c09_q_overlay_2ops, 9, {
    let (db0, oracle, store) = scenario::<2>(false);
    kani::cover!(db0 != oracle, "the history changed the set");
    kani::cover!(store != db0 && store != oracle, "a strict prefix of the history is durable");
    kani::cover!(oracle == 0 && db0 != 0, "everything was removed again");
});
h!(c09_q_overlay_3ops, 9, {
    let (db0, oracle, store) = scenario::<3>(false);
    kani::cover!(db0 != oracle, "the history changed the set");
    kani::cover!(store != db0 && store != oracle, "a strict prefix of the history is durable");
});
h!(c09_t_overlay_3ops_flush_between, 9, {
    let (db0, oracle, store) = scenario::<3>(true);
    kani::cover!(store != db0 && store != oracle, "a strict prefix of the history is durable");
});
h!(c09_t_overlay_4ops, 10, {
    let (db0, oracle, store) = scenario::<4>(false);
    kani::cover!(db0 != oracle, "the history changed the set");
});

// the two histories of the repaired defect (findings/C09_overlay_snapshot), as fixed scenarios
h!(c09_q_regress_insert_remove_of_durable_member, 9, {
    unsafe { QV9_STORE = 0b010; } // member 1 is durable
    let log = verif::new_log::<u8>();
    kos::stage_op(&log, verif::op_insert(1u8), Epoch(5));
    kos::stage_op(&log, verif::op_remove(1u8), Epoch(6));
    let map = kos::CacheKeyOfSetMap::<Col, BitSet, Db> { db: Db, _p: std::marker::PhantomData };
    let snap = verif::snapshot(&log);
    let mut spilled = None;
    let entry = map.fetch_entry(&0u8, &snap, &mut spilled);
    let view = verif::entry_is_in_memory(&entry).map(|s| s.0.load(Ordering::Relaxed));
    assert!(view == Some(0), "a member removed after an idempotent re-insert is gone");
    kani::cover!(verif::staged_len(&log) == 2, "both operations are still staged");
    std::mem::forget((log, entry, snap, spilled));
});
h!(c09_q_regress_insert_remove_insert_staged, 9, {
    unsafe { QV9_STORE = 0; }
    let log = verif::new_log::<u8>();
    kos::stage_op(&log, verif::op_insert(1u8), Epoch(0));
    kos::stage_op(&log, verif::op_remove(1u8), Epoch(1));
    kos::stage_op(&log, verif::op_insert(1u8), Epoch(2));
    let map = kos::CacheKeyOfSetMap::<Col, BitSet, Db> { db: Db, _p: std::marker::PhantomData };
    let snap = verif::snapshot(&log);
    let mut spilled = None;
    let entry = map.fetch_entry(&0u8, &snap, &mut spilled);
    let view = verif::entry_is_in_memory(&entry).map(|s| s.0.load(Ordering::Relaxed));
    assert!(view == Some(0b010), "the last insert wins whatever order the heap iterates in");
    kani::cover!(verif::staged_len(&log) == 3, "all three operations are still staged");
    std::mem::forget((log, entry, snap, spilled));
});

h!(c09_xq_overlay_twin, 9, {
    let (db0, oracle, _store) = scenario::<2>(false);
    assert!(oracle == db0, "TWIN deliberately wrong: staged operations never change what a read returns");
});

include!("gen/playback_c09.rs");
