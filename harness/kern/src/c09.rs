//! C09 — key-of-set staging overlay (items cut from key_of_set_map/cache.rs): what a read sees
//! when the cache entry is absent or spilled = store scan merged with the staged log.  Must equal
//! the sequential result of all inserts/removes issued so far, however far the writer has got.
use crate::common::*;
use crate::kv_database::{self as kv, KeyOfSetColumn, KvDatabase};
use crate::write_manager::write_behind::Epoch;
use qbice_stable_type_id::Identifiable;
use std::sync::atomic::{AtomicU8, Ordering};
use std::sync::Arc;

#[path = "gen/kos_cache.rs"]
pub mod kos;
use kos::{verif, ConcurrentSet};

const NE: u8 = 3; // element domain {0,1,2}

#[derive(Identifiable)]
#[stable_type_id_crate(qbice_stable_type_id)]
pub struct Col;
impl KeyOfSetColumn for Col { type Key = u8; type Element = u8; }

// the store: members of the one key under test, as a bit mask (scalar static, see DESIGN §2)
static mut QV9_STORE: u8 = 0;

/// harness ConcurrentSet: bit mask behind an Arc (cheap clone, shared like Arc<DashSet>)
#[derive(Clone, Default)]
pub struct BitSet(Arc<AtomicU8>);
pub struct BitIter { m: u8, next: u8 }
impl Iterator for BitIter {
    type Item = u8;
    fn next(&mut self) -> Option<u8> {
        while self.next < NE {
            let i = self.next;
            self.next += 1;
            if (self.m >> i) & 1 == 1 { return Some(i); }
        }
        None
    }
}
impl ConcurrentSet for BitSet {
    type Element = u8;
    type Iterator<'x> = BitIter;
    fn insert_element(&self, e: u8) -> bool { let o = self.0.load(Ordering::Relaxed); self.0.store(o | (1 << e), Ordering::Relaxed); (o >> e) & 1 == 0 }
    fn remove_element(&self, e: &u8) -> bool { let o = self.0.load(Ordering::Relaxed); self.0.store(o & !(1 << *e), Ordering::Relaxed); (o >> *e) & 1 == 1 }
    fn len(&self) -> usize { self.0.load(Ordering::Relaxed).count_ones() as usize }
    fn iter(&self) -> BitIter { BitIter { m: self.0.load(Ordering::Relaxed), next: 0 } }
}

#[derive(Clone, Copy)]
pub struct Db;
pub struct NoBuf;
pub struct NoBatch;
impl kv::SerializationBuffer for NoBuf {
    fn put<W: kv::WideColumn, C: kv::WideColumnValue<W>>(&mut self, _k: &W::Key, _v: &C) {}
    fn delete<W: kv::WideColumn, C: kv::WideColumnValue<W>>(&mut self, _k: &W::Key) {}
    fn insert_member<C: KeyOfSetColumn>(&mut self, _k: &C::Key, _v: &C::Element) {}
    fn delete_member<C: KeyOfSetColumn>(&mut self, _k: &C::Key, _v: &C::Element) {}
}
impl kv::WriteBatch for NoBatch {
    type SerializationBuffer = NoBuf;
    fn put<W: kv::WideColumn, C: kv::WideColumnValue<W>>(&mut self, _k: &W::Key, _v: &C) {}
    fn delete<W: kv::WideColumn, C: kv::WideColumnValue<W>>(&mut self, _k: &W::Key) {}
    fn insert_member<C: KeyOfSetColumn>(&mut self, _k: &C::Key, _v: &C::Element) {}
    fn delete_member<C: KeyOfSetColumn>(&mut self, _k: &C::Key, _v: &C::Element) {}
    fn consume_serialization_buffer(&mut self, _b: NoBuf) {}
    fn commit(self) {}
}
/// scan of the store: only instantiated for `Col` (Element = u8)
pub struct Scan<C> { it: BitIter, _p: std::marker::PhantomData<C> }
impl<C: KeyOfSetColumn> Iterator for Scan<C> {
    type Item = C::Element;
    fn next(&mut self) -> Option<C::Element> {
        let b = self.it.next()?;
        // C::Element is u8 for the only column used here
        assert!(std::mem::size_of::<C::Element>() == 1);
        Some(unsafe { std::mem::transmute_copy::<u8, C::Element>(&b) })
    }
}
unsafe impl<C> Send for Scan<C> {}
impl KvDatabase for Db {
    type WriteBatch = NoBatch;
    type SerializationBuffer = NoBuf;
    type ScanMemberIterator<C: KeyOfSetColumn> = Scan<C>;
    fn get_wide_column<W: kv::WideColumn, C: kv::WideColumnValue<W>>(&self, _k: &W::Key) -> Option<C> { None }
    fn scan_members<C: KeyOfSetColumn>(&self, _k: &C::Key) -> Scan<C> { Scan { it: BitIter { m: unsafe { QV9_STORE }, next: 0 }, _p: std::marker::PhantomData } }
    fn write_batch(&self) -> NoBatch { NoBatch }
    fn serialization_buffer(&self) -> NoBuf { NoBuf }
}

macro_rules! h {
    ($name:ident, $unw:expr, $body:block) => {
        #[kani::proof]
        #[kani::unwind($unw)]
        #[kani::stub(std::hash::RandomState::new, rs_stub)]
        #[kani::stub(alloc::fmt::format, fmt_stub)]
        #[kani::stub(parking_lot::RawRwLock::lock_exclusive_slow, pl_rw_lock_exclusive_slow)]
        #[kani::stub(parking_lot::RawRwLock::unlock_exclusive_slow, pl_rw_unlock_exclusive_slow)]
        #[kani::stub(parking_lot::RawRwLock::lock_shared_slow, pl_rw_lock_shared_slow)]
        #[kani::stub(parking_lot::RawRwLock::unlock_shared_slow, pl_rw_unlock_shared_slow)]
        fn $name() $body
    };
}

/// one instance per concrete history (kind, element, epoch per operation), durable prefix and initial
/// store content ("m": element 1 is a durable member, "e": store empty).  Harnesses with symbolic
/// operation kinds / epochs, and with only the store content symbolic, were tried first: even two
/// operations on one element do not finish in 1000 s (the staged operations are sorted on a
/// heap-allocated vector and merged through Arc/RwLock-held sets), while a concrete history takes
/// under a minute.  Instances in which a durable prefix has already been flushed out of the log
/// (`FlushUpTo`) were generated as well and removed: none of them finishes within 30 minutes; the
/// "m" instances (element already durable in the store) cover the store side of that situation.
/// The history space is therefore enumerated as harness instances; what CBMC
/// decides per instance is the real code's result plus all panics / memory-safety checks.
macro_rules! overlay_inst {
    ($name:ident, [$(($ins:expr, $el:expr, $ep:expr)),*], $f:expr, $db0:expr) => {
        h!($name, 9, {
            let db0: u8 = $db0;
            let f: i64 = $f;
            let log = verif::new_log::<u8>();
            let (mut store, mut oracle) = (db0, db0);
            $(
                kos::stage_op(&log, if $ins { verif::op_insert($el) } else { verif::op_remove($el) }, Epoch($ep));
                if $ins { oracle |= 1 << $el; } else { oracle &= !(1 << $el); }
                if ($ep as i64) <= f { if $ins { store |= 1 << $el; } else { store &= !(1 << $el); } }
            )*
            if f >= 0 { kos::flush_log(&log, Epoch(f as u64)); }
            unsafe { QV9_STORE = store; }
            let map = kos::CacheKeyOfSetMap::<Col, BitSet, Db> { db: Db, _p: std::marker::PhantomData };
            let snap = verif::snapshot(&log);
            let mut spilled = None;
            let entry = map.fetch_entry(&0u8, &snap, &mut spilled);
            let view1 = verif::entry_is_in_memory(&entry).map(|s| s.0.load(Ordering::Relaxed));
            assert!(view1 == Some(oracle), "read after a cache miss = all inserts/removes issued so far (fetch path)");
            let snap2 = verif::snapshot(&log);
            let mut view2 = 0u8;
            let mut it = verif::streaming::<BitSet, _, u8>(Db.scan_members::<Col>(&0u8), snap2);
            let mut guard = 0;
            while let Some(x) = it.next() { view2 |= 1 << x; guard += 1; if guard > 6 { break; } }
            assert!(view2 == oracle, "read of a spilled set = all inserts/removes issued so far (streaming path)");
            kani::cover!(verif::staged_len(&log) > 0 || f >= 0, "operations are staged or durable");
            std::mem::forget((log, entry, snap, it, spilled));
        });
    };
}
overlay_inst!(c09_t_inst_i1e0i1e0_fn_m, [(true, 1u8, 0u64), (true, 1u8, 0u64)], -1, 0b010);
overlay_inst!(c09_t_inst_i1e0i1e0_fn_e, [(true, 1u8, 0u64), (true, 1u8, 0u64)], -1, 0b000);
overlay_inst!(c09_t_inst_i1e0i1e1_fn_m, [(true, 1u8, 0u64), (true, 1u8, 1u64)], -1, 0b010);
overlay_inst!(c09_t_inst_i1e0i1e1_fn_e, [(true, 1u8, 0u64), (true, 1u8, 1u64)], -1, 0b000);
overlay_inst!(c09_q_inst_i1e0r1e0_fn_m, [(true, 1u8, 0u64), (false, 1u8, 0u64)], -1, 0b010);
overlay_inst!(c09_q_inst_i1e0r1e0_fn_e, [(true, 1u8, 0u64), (false, 1u8, 0u64)], -1, 0b000);
overlay_inst!(c09_q_inst_i1e0r1e1_fn_m, [(true, 1u8, 0u64), (false, 1u8, 1u64)], -1, 0b010);
overlay_inst!(c09_q_inst_i1e0r1e1_fn_e, [(true, 1u8, 0u64), (false, 1u8, 1u64)], -1, 0b000);
overlay_inst!(c09_t_inst_r1e0i1e0_fn_m, [(false, 1u8, 0u64), (true, 1u8, 0u64)], -1, 0b010);
overlay_inst!(c09_t_inst_r1e0i1e0_fn_e, [(false, 1u8, 0u64), (true, 1u8, 0u64)], -1, 0b000);
overlay_inst!(c09_q_inst_r1e0i1e1_fn_m, [(false, 1u8, 0u64), (true, 1u8, 1u64)], -1, 0b010);
overlay_inst!(c09_q_inst_r1e0i1e1_fn_e, [(false, 1u8, 0u64), (true, 1u8, 1u64)], -1, 0b000);
overlay_inst!(c09_t_inst_r1e0r1e0_fn_m, [(false, 1u8, 0u64), (false, 1u8, 0u64)], -1, 0b010);
overlay_inst!(c09_t_inst_r1e0r1e0_fn_e, [(false, 1u8, 0u64), (false, 1u8, 0u64)], -1, 0b000);
overlay_inst!(c09_t_inst_r1e0r1e1_fn_m, [(false, 1u8, 0u64), (false, 1u8, 1u64)], -1, 0b010);
overlay_inst!(c09_t_inst_r1e0r1e1_fn_e, [(false, 1u8, 0u64), (false, 1u8, 1u64)], -1, 0b000);
overlay_inst!(c09_q_inst_i1e0r1e1i1e2_fn_m, [(true, 1u8, 0u64), (false, 1u8, 1u64), (true, 1u8, 2u64)], -1, 0b010);
overlay_inst!(c09_q_inst_i1e0r1e1i1e2_fn_e, [(true, 1u8, 0u64), (false, 1u8, 1u64), (true, 1u8, 2u64)], -1, 0b000);
overlay_inst!(c09_t_inst_r1e0i1e1r1e2_fn_m, [(false, 1u8, 0u64), (true, 1u8, 1u64), (false, 1u8, 2u64)], -1, 0b010);
overlay_inst!(c09_t_inst_r1e0i1e1r1e2_fn_e, [(false, 1u8, 0u64), (true, 1u8, 1u64), (false, 1u8, 2u64)], -1, 0b000);
overlay_inst!(c09_t_inst_i1e0i1e1r1e2_fn_m, [(true, 1u8, 0u64), (true, 1u8, 1u64), (false, 1u8, 2u64)], -1, 0b010);
overlay_inst!(c09_t_inst_i1e0i1e1r1e2_fn_e, [(true, 1u8, 0u64), (true, 1u8, 1u64), (false, 1u8, 2u64)], -1, 0b000);
overlay_inst!(c09_t_inst_r1e0r1e1i1e2_fn_m, [(false, 1u8, 0u64), (false, 1u8, 1u64), (true, 1u8, 2u64)], -1, 0b010);
overlay_inst!(c09_t_inst_r1e0r1e1i1e2_fn_e, [(false, 1u8, 0u64), (false, 1u8, 1u64), (true, 1u8, 2u64)], -1, 0b000);
overlay_inst!(c09_t_inst_i1e0r1e1r1e2_fn_m, [(true, 1u8, 0u64), (false, 1u8, 1u64), (false, 1u8, 2u64)], -1, 0b010);
overlay_inst!(c09_t_inst_i1e0r1e1r1e2_fn_e, [(true, 1u8, 0u64), (false, 1u8, 1u64), (false, 1u8, 2u64)], -1, 0b000);
overlay_inst!(c09_t_inst_r1e0i1e1i1e2_fn_m, [(false, 1u8, 0u64), (true, 1u8, 1u64), (true, 1u8, 2u64)], -1, 0b010);
overlay_inst!(c09_t_inst_r1e0i1e1i1e2_fn_e, [(false, 1u8, 0u64), (true, 1u8, 1u64), (true, 1u8, 2u64)], -1, 0b000);
overlay_inst!(c09_t_inst_i0e0r1e0i1e1_fn_m, [(true, 0u8, 0u64), (false, 1u8, 0u64), (true, 1u8, 1u64)], -1, 0b010);
overlay_inst!(c09_t_inst_i0e0r1e0i1e1_fn_e, [(true, 0u8, 0u64), (false, 1u8, 0u64), (true, 1u8, 1u64)], -1, 0b000);

// the two histories of the repaired defect (findings/C09_overlay_snapshot), as fixed scenarios
h!(c09_q_regress_insert_remove_of_durable_member, 9, {
    unsafe { QV9_STORE = 0b010; } // member 1 is durable
    let log = verif::new_log::<u8>();
    kos::stage_op(&log, verif::op_insert(1u8), Epoch(5));
    kos::stage_op(&log, verif::op_remove(1u8), Epoch(6));
    let map = kos::CacheKeyOfSetMap::<Col, BitSet, Db> { db: Db, _p: std::marker::PhantomData };
    let snap = verif::snapshot(&log);
    let mut spilled = None;
    let entry = map.fetch_entry(&0u8, &snap, &mut spilled);
    let view = verif::entry_is_in_memory(&entry).map(|s| s.0.load(Ordering::Relaxed));
    assert!(view == Some(0), "a member removed after an idempotent re-insert is gone");
    kani::cover!(verif::staged_len(&log) == 2, "both operations are still staged");
    std::mem::forget((log, entry, snap, spilled));
});
h!(c09_q_regress_insert_remove_insert_staged, 9, {
    unsafe { QV9_STORE = 0; }
    let log = verif::new_log::<u8>();
    kos::stage_op(&log, verif::op_insert(1u8), Epoch(0));
    kos::stage_op(&log, verif::op_remove(1u8), Epoch(1));
    kos::stage_op(&log, verif::op_insert(1u8), Epoch(2));
    let map = kos::CacheKeyOfSetMap::<Col, BitSet, Db> { db: Db, _p: std::marker::PhantomData };
    let snap = verif::snapshot(&log);
    let mut spilled = None;
    let entry = map.fetch_entry(&0u8, &snap, &mut spilled);
    let view = verif::entry_is_in_memory(&entry).map(|s| s.0.load(Ordering::Relaxed));
    assert!(view == Some(0b010), "the last insert wins whatever order the heap iterates in");
    kani::cover!(verif::staged_len(&log) == 3, "all three operations are still staged");
    std::mem::forget((log, entry, snap, spilled));
});

h!(c09_xq_overlay_twin, 9, {
    unsafe { QV9_STORE = 0b010; }
    let log = verif::new_log::<u8>();
    kos::stage_op(&log, verif::op_remove(1u8), Epoch(3));
    let map = kos::CacheKeyOfSetMap::<Col, BitSet, Db> { db: Db, _p: std::marker::PhantomData };
    let snap = verif::snapshot(&log);
    let mut spilled = None;
    let entry = map.fetch_entry(&0u8, &snap, &mut spilled);
    let view = verif::entry_is_in_memory(&entry).map(|s| s.0.load(Ordering::Relaxed));
    assert!(view == Some(0b010), "TWIN deliberately wrong: a staged remove is invisible to readers");
    std::mem::forget((log, entry, snap, spilled));
});

include!("gen/playback_c09.rs");
