//! Inline-storage stand-ins for `std::collections::{HashMap, HashSet, BinaryHeap}` and a small `Vec`,
//! with the same API contract (documented stubs).  Two measured reasons (DESIGN §2):
//!  * hashbrown's SIMD group probing is the cost wall for CBMC (no answer in 7 min for 2 inserts);
//!  * values that pass through heap buffers lose CBMC's constant propagation, after which every
//!    loop unwinds to its bound on every path (a 2-batch scenario exhausted 62 GB).
//! Only the methods the extracted kernels call are provided.  Ordering / hashing of *elements*
//! still comes from the real `Ord` / `Eq` impls of the qbice types stored in them.
use std::borrow::Borrow;
use std::marker::PhantomData;
use std::mem::ManuallyDrop;

pub const MAP_CAP: usize = 6;

pub struct HashMap<K, V, S = ()> {
    // never dropped (leaked): keeps the drop glue of the containing structs trivial for CBMC;
    // leaks are not a checked property and no harness depends on element destructors of a map
    slots: ManuallyDrop<[Option<(K, V)>; MAP_CAP]>,
    _s: PhantomData<S>,
}
impl<K, V, S> Default for HashMap<K, V, S> {
    fn default() -> Self { HashMap { slots: ManuallyDrop::new([None, None, None, None, None, None]), _s: PhantomData } }
}
impl<K, V, S> HashMap<K, V, S> {
    // no trait bounds on constructors and size accessors, as in std
    pub fn with_hasher(_s: S) -> Self { Self::default() }
    pub fn with_capacity_and_hasher(_c: usize, _s: S) -> Self { Self::default() }
    pub fn len(&self) -> usize {
        let mut n = 0;
        let mut i = 0;
        while i < MAP_CAP { if self.slots[i].is_some() { n += 1; } i += 1; }
        n
    }
    pub fn is_empty(&self) -> bool { self.len() == 0 }
    pub fn capacity(&self) -> usize { MAP_CAP }
    pub fn iter(&self) -> impl Iterator<Item = (&K, &V)> { self.slots.iter().filter_map(|s| s.as_ref().map(|kv| (&kv.0, &kv.1))) }
    pub fn keys(&self) -> impl Iterator<Item = &K> { self.slots.iter().filter_map(|s| s.as_ref().map(|kv| &kv.0)) }
    pub fn values(&self) -> impl Iterator<Item = &V> { self.slots.iter().filter_map(|s| s.as_ref().map(|kv| &kv.1)) }
    pub fn values_mut(&mut self) -> impl Iterator<Item = &mut V> { self.slots.iter_mut().filter_map(|s| s.as_mut().map(|kv| &mut kv.1)) }
    pub fn drain(&mut self) -> impl Iterator<Item = (K, V)> + '_ { self.slots.iter_mut().filter_map(|s| s.take()) }
    pub fn clear(&mut self) { let mut i = 0; while i < MAP_CAP { self.slots[i] = None; i += 1; } }
}
impl<K: Eq, V, S> HashMap<K, V, S> {
    fn pos<Q: ?Sized + Eq>(&self, k: &Q) -> Option<usize> where K: Borrow<Q> {
        let mut i = 0;
        while i < MAP_CAP {
            if let Some((kk, _)) = &self.slots[i] { if kk.borrow() == k { return Some(i); } }
            i += 1;
        }
        None
    }
    fn free(&self) -> usize {
        let mut i = 0;
        while i < MAP_CAP { if self.slots[i].is_none() { return i; } i += 1; }
        panic!("shim HashMap capacity exceeded");
    }
    pub fn get<Q: ?Sized + Eq>(&self, k: &Q) -> Option<&V> where K: Borrow<Q> {
        match self.pos(k) { Some(i) => self.slots[i].as_ref().map(|kv| &kv.1), None => None }
    }
    pub fn get_mut<Q: ?Sized + Eq>(&mut self, k: &Q) -> Option<&mut V> where K: Borrow<Q> {
        match self.pos(k) { Some(i) => self.slots[i].as_mut().map(|kv| &mut kv.1), None => None }
    }
    pub fn contains_key<Q: ?Sized + Eq>(&self, k: &Q) -> bool where K: Borrow<Q> { self.pos(k).is_some() }
    pub fn insert(&mut self, k: K, v: V) -> Option<V> {
        match self.pos(&k) {
            Some(i) => self.slots[i].replace((k, v)).map(|kv| kv.1),
            None => { let f = self.free(); self.slots[f] = Some((k, v)); None }
        }
    }
    pub fn remove<Q: ?Sized + Eq>(&mut self, k: &Q) -> Option<V> where K: Borrow<Q> {
        match self.pos(k) { Some(i) => self.slots[i].take().map(|kv| kv.1), None => None }
    }
    pub fn shrink_to(&mut self, _min: usize) {}
    pub fn entry(&mut self, k: K) -> hash_map::Entry<'_, K, V> {
        match self.pos(&k) {
            Some(idx) => hash_map::Entry::Occupied(hash_map::OccupiedEntry { slot: &mut self.slots[idx] }),
            None => { let f = self.free(); hash_map::Entry::Vacant(hash_map::VacantEntry { slot: &mut self.slots[f], key: k }) }
        }
    }
}
impl<'a, K, V, S> IntoIterator for &'a HashMap<K, V, S> {
    type Item = (&'a K, &'a V);
    type IntoIter = std::iter::FilterMap<std::slice::Iter<'a, Option<(K, V)>>, fn(&'a Option<(K, V)>) -> Option<(&'a K, &'a V)>>;
    fn into_iter(self) -> Self::IntoIter {
        fn split<K, V>(s: &Option<(K, V)>) -> Option<(&K, &V)> { s.as_ref().map(|kv| (&kv.0, &kv.1)) }
        self.slots.iter().filter_map(split::<K, V> as fn(&'a Option<(K, V)>) -> Option<(&'a K, &'a V)>)
    }
}
pub mod hash_map {
    pub enum Entry<'a, K, V> { Occupied(OccupiedEntry<'a, K, V>), Vacant(VacantEntry<'a, K, V>) }
    pub struct OccupiedEntry<'a, K, V> { pub(super) slot: &'a mut Option<(K, V)> }
    pub struct VacantEntry<'a, K, V> { pub(super) slot: &'a mut Option<(K, V)>, pub(super) key: K }
    impl<'a, K, V> OccupiedEntry<'a, K, V> {
        pub fn get(&self) -> &V { &self.slot.as_ref().unwrap().1 }
        pub fn get_mut(&mut self) -> &mut V { &mut self.slot.as_mut().unwrap().1 }
        pub fn insert(&mut self, v: V) -> V { std::mem::replace(&mut self.slot.as_mut().unwrap().1, v) }
    }
    impl<'a, K, V> VacantEntry<'a, K, V> {
        pub fn insert(self, v: V) -> &'a mut V {
            *self.slot = Some((self.key, v));
            &mut self.slot.as_mut().unwrap().1
        }
    }
}

pub struct HashSet<T, S = ()> {
    slots: ManuallyDrop<[Option<T>; MAP_CAP]>,
    _s: PhantomData<S>,
}
impl<T, S> Default for HashSet<T, S> {
    fn default() -> Self { HashSet { slots: ManuallyDrop::new([None, None, None, None, None, None]), _s: PhantomData } }
}
impl<T, S> std::fmt::Debug for HashSet<T, S> {
    fn fmt(&self, f: &mut std::fmt::Formatter<'_>) -> std::fmt::Result { f.write_str("HashSet") }
}
impl<T, S> HashSet<T, S> {
    pub fn with_hasher(_s: S) -> Self { Self::default() }
    pub fn with_capacity_and_hasher(_c: usize, _s: S) -> Self { Self::default() }
    pub fn len(&self) -> usize {
        let mut n = 0;
        let mut i = 0;
        while i < MAP_CAP { if self.slots[i].is_some() { n += 1; } i += 1; }
        n
    }
    pub fn is_empty(&self) -> bool { self.len() == 0 }
    pub fn iter(&self) -> impl Iterator<Item = &T> { self.slots.iter().filter_map(|s| s.as_ref()) }
    pub fn clear(&mut self) { let mut i = 0; while i < MAP_CAP { self.slots[i] = None; i += 1; } }
}
impl<T: Eq, S> HashSet<T, S> {
    fn pos<Q: ?Sized + Eq>(&self, k: &Q) -> Option<usize> where T: Borrow<Q> {
        let mut i = 0;
        while i < MAP_CAP {
            if let Some(x) = &self.slots[i] { if x.borrow() == k { return Some(i); } }
            i += 1;
        }
        None
    }
    pub fn contains<Q: ?Sized + Eq>(&self, k: &Q) -> bool where T: Borrow<Q> { self.pos(k).is_some() }
    pub fn insert(&mut self, v: T) -> bool {
        if self.pos(&v).is_some() { return false; }
        let mut i = 0;
        while i < MAP_CAP { if self.slots[i].is_none() { self.slots[i] = Some(v); return true; } i += 1; }
        panic!("shim HashSet capacity exceeded");
    }
    pub fn remove<Q: ?Sized + Eq>(&mut self, k: &Q) -> bool where T: Borrow<Q> {
        match self.pos(k) { Some(i) => { self.slots[i] = None; true } None => false }
    }
}
pub mod hash_set {
    pub struct IntoIter<T> { pub(super) slots: [Option<T>; super::MAP_CAP], pub(super) next: usize }
    impl<T> Iterator for IntoIter<T> {
        type Item = T;
        fn next(&mut self) -> Option<T> {
            while self.next < super::MAP_CAP {
                let i = self.next;
                self.next += 1;
                if let Some(x) = self.slots[i].take() { return Some(x); }
            }
            None
        }
    }
    impl<T> std::fmt::Debug for IntoIter<T> {
        fn fmt(&self, f: &mut std::fmt::Formatter<'_>) -> std::fmt::Result { f.write_str("IntoIter") }
    }
}
impl<T, S> IntoIterator for HashSet<T, S> {
    type Item = T;
    type IntoIter = hash_set::IntoIter<T>;
    fn into_iter(self) -> Self::IntoIter { hash_set::IntoIter { slots: ManuallyDrop::into_inner(self.slots), next: 0 } }
}
impl<'a, T, S> IntoIterator for &'a HashSet<T, S> {
    type Item = &'a T;
    type IntoIter = std::iter::FilterMap<std::slice::Iter<'a, Option<T>>, fn(&'a Option<T>) -> Option<&'a T>>;
    fn into_iter(self) -> Self::IntoIter {
        fn r<T>(s: &Option<T>) -> Option<&T> { s.as_ref() }
        self.slots.iter().filter_map(r::<T> as fn(&'a Option<T>) -> Option<&'a T>)
    }
}

/// Stand-in for `std::collections::BinaryHeap` (max-heap by `Ord`): linear scan over option slots.
/// Documented stub: std's heap moves elements with `mem::swap` / `ptr::copy`, which CBMC models as
/// byte-wise copies and which destroys constant propagation for everything that passed through the
/// heap (a 2-element scenario ran out of 62 GB).  The *order* still comes from the real `Ord` impl
/// of the element type, which is the part that belongs to qbice.
pub struct BinaryHeap<T> {
    // inline slots (no heap allocation): values that only ever live in typed stack storage keep
    // CBMC's constant propagation alive, so loops over a concrete scenario stay concrete
    slots: [Option<T>; HEAP_CAP],
}
pub const HEAP_CAP: usize = 5;
impl<T> std::fmt::Debug for BinaryHeap<T> {
    fn fmt(&self, f: &mut std::fmt::Formatter<'_>) -> std::fmt::Result { f.write_str("BinaryHeap") }
}
impl<T> BinaryHeap<T> {
    pub const fn new() -> Self { BinaryHeap { slots: [None, None, None, None, None] } }
}
impl<T: Ord> BinaryHeap<T> {
    pub fn push(&mut self, t: T) {
        let mut i = 0;
        while i < HEAP_CAP {
            if self.slots[i].is_none() { self.slots[i] = Some(t); return; }
            i += 1;
        }
        panic!("shim BinaryHeap capacity exceeded");
    }
    fn max_idx(&self) -> Option<usize> {
        let mut best: Option<usize> = None;
        let mut i = 0;
        while i < HEAP_CAP {
            if let Some(x) = &self.slots[i] {
                best = match best {
                    None => Some(i),
                    Some(b) => if x > self.slots[b].as_ref().unwrap() { Some(i) } else { Some(b) },
                };
            }
            i += 1;
        }
        best
    }
    pub fn peek(&self) -> Option<&T> {
        match self.max_idx() { Some(i) => self.slots[i].as_ref(), None => None }
    }
    pub fn pop(&mut self) -> Option<T> {
        match self.max_idx() { Some(i) => self.slots[i].take(), None => None }
    }
    pub fn len(&self) -> usize {
        let mut n = 0;
        let mut i = 0;
        while i < HEAP_CAP { if self.slots[i].is_some() { n += 1; } i += 1; }
        n
    }
    pub fn is_empty(&self) -> bool { self.len() == 0 }
    /// arbitrary order, like std's `BinaryHeap::iter`
    pub fn iter(&self) -> impl Iterator<Item = &T> { self.slots.iter().filter_map(|s| s.as_ref()) }
    /// arbitrary (slot) order, like std's `BinaryHeap::drain`
    pub fn drain(&mut self) -> impl Iterator<Item = T> + '_ { self.slots.iter_mut().filter_map(|s| s.take()) }
    pub fn into_sorted_vec(mut self) -> Vec<T> {
        let mut v = Vec::new();
        while let Some(x) = self.pop() { v.push(x); }
        v.reverse();
        v
    }
    pub fn clear(&mut self) { let mut i = 0; while i < HEAP_CAP { self.slots[i] = None; i += 1; } }
}

/// Stand-in for a small `Vec<T>` with inline storage (push / take / by-value iteration in insertion
/// order, plus the handful of slice methods the extracted kernels use).  Documented stub, same
/// reason as `BinaryHeap` above: CBMC loses precision on real `Vec` buffers (spurious "pointer to
/// unallocated memory" failures after repeated allocate / into_iter / free rounds in
/// `CurrentBatch::flush`; out of memory for `Vec::remove` at a symbolic index in `CalleeOrder`).
#[derive(Debug, Clone, PartialEq, Eq, PartialOrd, Ord)]
pub struct SVec<T> {
    slots: [Option<T>; SVEC_CAP],
    len: usize,
}
pub const SVEC_CAP: usize = 4;
impl<T> Default for SVec<T> {
    fn default() -> Self { SVec { slots: [None, None, None, None], len: 0 } }
}
impl<T> SVec<T> {
    pub fn new() -> Self { Self::default() }
    pub fn push(&mut self, t: T) {
        assert!(self.len < SVEC_CAP, "shim SVec capacity exceeded");
        self.slots[self.len] = Some(t);
        self.len += 1;
    }
    pub fn len(&self) -> usize { self.len }
    pub fn is_empty(&self) -> bool { self.len == 0 }
    pub fn clear(&mut self) {
        let mut i = 0;
        while i < SVEC_CAP { self.slots[i] = None; i += 1; }
        self.len = 0;
    }
    pub fn last_mut(&mut self) -> Option<&mut T> {
        if self.len == 0 { None } else { self.slots[self.len - 1].as_mut() }
    }
    pub fn iter(&self) -> std::iter::FilterMap<std::slice::Iter<'_, Option<T>>, fn(&Option<T>) -> Option<&T>> {
        fn r<T>(s: &Option<T>) -> Option<&T> { s.as_ref() }
        self.slots.iter().filter_map(r::<T> as fn(&Option<T>) -> Option<&T>)
    }
    pub fn iter_mut(&mut self) -> std::iter::FilterMap<std::slice::IterMut<'_, Option<T>>, fn(&mut Option<T>) -> Option<&mut T>> {
        fn r<T>(s: &mut Option<T>) -> Option<&mut T> { s.as_mut() }
        self.slots.iter_mut().filter_map(r::<T> as fn(&mut Option<T>) -> Option<&mut T>)
    }
    /// like `Vec::remove`: shifts the tail left, keeps the order
    pub fn remove(&mut self, index: usize) -> T {
        assert!(index < self.len, "removal index out of bounds");
        let out = self.slots[index].take().unwrap();
        let mut i = index;
        while i + 1 < self.len {
            self.slots[i] = self.slots[i + 1].take();
            i += 1;
        }
        self.len -= 1;
        out
    }
    /// like `Vec::swap_remove`: the last element takes the hole
    pub fn swap_remove(&mut self, index: usize) -> T {
        assert!(index < self.len, "swap_remove index out of bounds");
        let out = self.slots[index].take().unwrap();
        if index + 1 < self.len { self.slots[index] = self.slots[self.len - 1].take(); }
        self.len -= 1;
        out
    }
}
impl<T> std::ops::Index<usize> for SVec<T> {
    type Output = T;
    fn index(&self, i: usize) -> &T { assert!(i < self.len); self.slots[i].as_ref().unwrap() }
}
pub struct SVecIntoIter<T> { v: SVec<T>, next: usize }
impl<T> Iterator for SVecIntoIter<T> {
    type Item = T;
    fn next(&mut self) -> Option<T> {
        if self.next < self.v.len {
            let i = self.next;
            self.next += 1;
            self.v.slots[i].take()
        } else {
            None
        }
    }
}
impl<T> IntoIterator for SVec<T> {
    type Item = T;
    type IntoIter = SVecIntoIter<T>;
    fn into_iter(self) -> SVecIntoIter<T> { SVecIntoIter { v: self, next: 0 } }
}
