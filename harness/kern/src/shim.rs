//! Linear-scan stand-ins for `std::collections::{HashMap, HashSet}` with the same API contract
//! (documented stub: hashbrown's SIMD group probing is the cost wall for CBMC, see DESIGN §2).
//! Only the methods the extracted kernels call are provided.
use std::borrow::Borrow;
use std::marker::PhantomData;

pub struct HashMap<K, V, S = ()> {
    // never dropped (leaked): keeps the drop glue of the containing structs trivial for CBMC;
    // leaks are not a checked property and no harness depends on element destructors of a map
    items: std::mem::ManuallyDrop<Vec<(K, V)>>,
    _s: PhantomData<S>,
}
impl<K, V, S> Default for HashMap<K, V, S> {
    fn default() -> Self { HashMap { items: std::mem::ManuallyDrop::new(Vec::new()), _s: PhantomData } }
}
impl<K: Eq, V, S> HashMap<K, V, S> {
    pub fn with_hasher(_s: S) -> Self { Self::default() }
    fn pos<Q: ?Sized + Eq>(&self, k: &Q) -> Option<usize> where K: Borrow<Q> {
        let mut i = 0;
        while i < self.items.len() {
            if self.items[i].0.borrow() == k { return Some(i); }
            i += 1;
        }
        None
    }
    pub fn get<Q: ?Sized + Eq>(&self, k: &Q) -> Option<&V> where K: Borrow<Q> {
        match self.pos(k) { Some(i) => Some(&self.items[i].1), None => None }
    }
    pub fn get_mut<Q: ?Sized + Eq>(&mut self, k: &Q) -> Option<&mut V> where K: Borrow<Q> {
        match self.pos(k) { Some(i) => Some(&mut self.items[i].1), None => None }
    }
    pub fn contains_key<Q: ?Sized + Eq>(&self, k: &Q) -> bool where K: Borrow<Q> { self.pos(k).is_some() }
    pub fn insert(&mut self, k: K, v: V) -> Option<V> {
        match self.pos(&k) {
            Some(i) => Some(std::mem::replace(&mut self.items[i].1, v)),
            None => { self.items.push((k, v)); None }
        }
    }
    pub fn remove<Q: ?Sized + Eq>(&mut self, k: &Q) -> Option<V> where K: Borrow<Q> {
        match self.pos(k) { Some(i) => Some(self.items.swap_remove(i).1), None => None }
    }
    pub fn len(&self) -> usize { self.items.len() }
    pub fn is_empty(&self) -> bool { self.items.is_empty() }
    pub fn capacity(&self) -> usize { self.items.capacity() }
    pub fn shrink_to(&mut self, _min: usize) {}
    pub fn iter(&self) -> impl Iterator<Item = (&K, &V)> { self.items.iter().map(|(k, v)| (k, v)) }
    pub fn keys(&self) -> impl Iterator<Item = &K> { self.items.iter().map(|(k, _)| k) }
    pub fn values(&self) -> impl Iterator<Item = &V> { self.items.iter().map(|(_, v)| v) }
    pub fn values_mut(&mut self) -> impl Iterator<Item = &mut V> { self.items.iter_mut().map(|(_, v)| v) }
    pub fn drain(&mut self) -> std::vec::Drain<'_, (K, V)> { self.items.drain(..) }
    pub fn entry(&mut self, k: K) -> hash_map::Entry<'_, K, V> {
        match self.pos(&k) {
            Some(idx) => hash_map::Entry::Occupied(hash_map::OccupiedEntry { items: &mut *self.items, idx }),
            None => hash_map::Entry::Vacant(hash_map::VacantEntry { items: &mut *self.items, key: k }),
        }
    }
}
impl<'a, K, V, S> IntoIterator for &'a HashMap<K, V, S> {
    type Item = (&'a K, &'a V);
    type IntoIter = std::iter::Map<std::slice::Iter<'a, (K, V)>, fn(&'a (K, V)) -> (&'a K, &'a V)>;
    fn into_iter(self) -> Self::IntoIter {
        fn split<K, V>(kv: &(K, V)) -> (&K, &V) { (&kv.0, &kv.1) }
        self.items.iter().map(split::<K, V> as fn(&'a (K, V)) -> (&'a K, &'a V))
    }
}
pub mod hash_map {
    pub enum Entry<'a, K, V> { Occupied(OccupiedEntry<'a, K, V>), Vacant(VacantEntry<'a, K, V>) }
    pub struct OccupiedEntry<'a, K, V> { pub(super) items: &'a mut Vec<(K, V)>, pub(super) idx: usize }
    pub struct VacantEntry<'a, K, V> { pub(super) items: &'a mut Vec<(K, V)>, pub(super) key: K }
    impl<'a, K, V> OccupiedEntry<'a, K, V> {
        pub fn get(&self) -> &V { &self.items[self.idx].1 }
        pub fn get_mut(&mut self) -> &mut V { &mut self.items[self.idx].1 }
        pub fn insert(&mut self, v: V) -> V { std::mem::replace(&mut self.items[self.idx].1, v) }
    }
    impl<'a, K, V> VacantEntry<'a, K, V> {
        pub fn insert(self, v: V) -> &'a mut V {
            self.items.push((self.key, v));
            let n = self.items.len() - 1;
            &mut self.items[n].1
        }
    }
}

pub struct HashSet<T, S = ()> {
    items: std::mem::ManuallyDrop<Vec<T>>,
    _s: PhantomData<S>,
}
impl<T, S> Default for HashSet<T, S> {
    fn default() -> Self { HashSet { items: std::mem::ManuallyDrop::new(Vec::new()), _s: PhantomData } }
}
impl<T: std::fmt::Debug, S> std::fmt::Debug for HashSet<T, S> {
    fn fmt(&self, f: &mut std::fmt::Formatter<'_>) -> std::fmt::Result { f.write_str("HashSet") }
}
impl<T: Eq, S> HashSet<T, S> {
    pub fn with_hasher(_s: S) -> Self { Self::default() }
    fn pos<Q: ?Sized + Eq>(&self, k: &Q) -> Option<usize> where T: Borrow<Q> {
        let mut i = 0;
        while i < self.items.len() {
            if self.items[i].borrow() == k { return Some(i); }
            i += 1;
        }
        None
    }
    pub fn contains<Q: ?Sized + Eq>(&self, k: &Q) -> bool where T: Borrow<Q> { self.pos(k).is_some() }
    pub fn insert(&mut self, v: T) -> bool {
        if self.pos(&v).is_some() { false } else { self.items.push(v); true }
    }
    pub fn remove<Q: ?Sized + Eq>(&mut self, k: &Q) -> bool where T: Borrow<Q> {
        match self.pos(k) { Some(i) => { self.items.swap_remove(i); true } None => false }
    }
    pub fn len(&self) -> usize { self.items.len() }
    pub fn is_empty(&self) -> bool { self.items.is_empty() }
    pub fn iter(&self) -> std::slice::Iter<'_, T> { self.items.iter() }
}
impl<T, S> IntoIterator for HashSet<T, S> {
    type Item = T;
    type IntoIter = std::vec::IntoIter<T>;
    fn into_iter(self) -> Self::IntoIter { std::mem::ManuallyDrop::into_inner(self.items).into_iter() }
}
impl<'a, T, S> IntoIterator for &'a HashSet<T, S> {
    type Item = &'a T;
    type IntoIter = std::slice::Iter<'a, T>;
    fn into_iter(self) -> Self::IntoIter { self.items.iter() }
}
pub mod hash_set {
    pub type IntoIter<T> = std::vec::IntoIter<T>;
}

/// Stand-in for `std::collections::BinaryHeap` (max-heap by `Ord`): linear scan over option slots.
/// Documented stub: std's heap moves elements with `mem::swap` / `ptr::copy`, which CBMC models as
/// byte-wise copies and which destroys constant propagation for everything that passed through the
/// heap (a 2-element scenario ran out of 62 GB).  The *order* still comes from the real `Ord` impl
/// of the element type, which is the part that belongs to qbice.
pub struct BinaryHeap<T> {
    // inline slots (no heap allocation): values that only ever live in typed stack storage keep
    // CBMC's constant propagation alive, so loops over a concrete scenario stay concrete
    slots: [Option<T>; HEAP_CAP],
}
pub const HEAP_CAP: usize = 5;
impl<T: Ord> BinaryHeap<T> {
    pub fn new() -> Self { BinaryHeap { slots: [None, None, None, None, None] } }
    pub fn push(&mut self, t: T) {
        let mut i = 0;
        while i < HEAP_CAP {
            if self.slots[i].is_none() { self.slots[i] = Some(t); return; }
            i += 1;
        }
        panic!("shim BinaryHeap capacity exceeded");
    }
    fn max_idx(&self) -> Option<usize> {
        let mut best: Option<usize> = None;
        let mut i = 0;
        while i < HEAP_CAP {
            if let Some(x) = &self.slots[i] {
                best = match best {
                    None => Some(i),
                    Some(b) => if x > self.slots[b].as_ref().unwrap() { Some(i) } else { Some(b) },
                };
            }
            i += 1;
        }
        best
    }
    pub fn peek(&self) -> Option<&T> {
        match self.max_idx() { Some(i) => self.slots[i].as_ref(), None => None }
    }
    pub fn pop(&mut self) -> Option<T> {
        match self.max_idx() { Some(i) => self.slots[i].take(), None => None }
    }
    pub fn len(&self) -> usize {
        let mut n = 0;
        let mut i = 0;
        while i < HEAP_CAP { if self.slots[i].is_some() { n += 1; } i += 1; }
        n
    }
    pub fn is_empty(&self) -> bool { self.len() == 0 }
    /// arbitrary order, like std's `BinaryHeap::iter`
    pub fn iter(&self) -> impl Iterator<Item = &T> { self.slots.iter().filter_map(|s| s.as_ref()) }
}

/// Stand-in for a small `Vec<T>` (push / take / by-value iteration in insertion order) with inline
/// storage.  Documented stub, same reason as `BinaryHeap` above: CBMC loses precision on the real
/// `Vec` buffer after repeated allocate / into_iter / free rounds inside `CurrentBatch::flush`
/// (spurious "pointer to unallocated memory" failures on schedules with three or more flushes).
pub struct SVec<T> {
    slots: [Option<T>; SVEC_CAP],
    len: usize,
}
pub const SVEC_CAP: usize = 4;
impl<T> Default for SVec<T> {
    fn default() -> Self { SVec { slots: [None, None, None, None], len: 0 } }
}
impl<T> SVec<T> {
    pub fn new() -> Self { Self::default() }
    pub fn push(&mut self, t: T) {
        assert!(self.len < SVEC_CAP, "shim SVec capacity exceeded");
        self.slots[self.len] = Some(t);
        self.len += 1;
    }
    pub fn len(&self) -> usize { self.len }
    pub fn is_empty(&self) -> bool { self.len == 0 }
}
pub struct SVecIntoIter<T> { v: SVec<T>, next: usize }
impl<T> Iterator for SVecIntoIter<T> {
    type Item = T;
    fn next(&mut self) -> Option<T> {
        if self.next < self.v.len {
            let i = self.next;
            self.next += 1;
            self.v.slots[i].take()
        } else {
            None
        }
    }
}
impl<T> IntoIterator for SVec<T> {
    type Item = T;
    type IntoIter = SVecIntoIter<T>;
    fn into_iter(self) -> SVecIntoIter<T> { SVecIntoIter { v: self, next: 0 } }
}
