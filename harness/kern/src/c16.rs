//! C16 — admission policy core (`Policy`, `Lru`, `Sketch` compiled from the real tiny_lfu/*.rs):
//! refused victims stay tracked, policy and storage agree on the resident set, regions bounded,
//! intrusive-list representation invariant (with CBMC's pointer checks: no use-after-free / double
//! free of a node), no panic — for symbolic operation sequences and pin predicates.
use crate::common::*;
use crate::tiny_lfu::lru::{self, Region};
use crate::tiny_lfu::policy::{self, Policy};
use crate::tiny_lfu::sketch::{self, Sketch};
use fxhash::FxBuildHasher;
use std::cell::Cell;
use std::hash::BuildHasher;

macro_rules! h {
    ($name:ident, $unw:expr, $body:block) => {
        #[kani::proof]
        #[kani::unwind($unw)]
        #[kani::stub(std::hash::RandomState::new, rs_stub)]
        #[kani::stub(alloc::fmt::format, fmt_stub)]
        fn $name() $body
    };
}

const NK: usize = 4; // key domain {0,1,2,3}

/// The owner of the policy as `TinyLFU` is: a storage (resident set) and a pin predicate that is
/// asked again by the removal callback.
struct World {
    policy: Policy<u8>,
    present: [Cell<bool>; NK],
    pinned: [Cell<bool>; NK],
    refused: Cell<u8>, // bit k: a removal of k was refused at least once
    bh: FxBuildHasher,
}
impl World {
    fn new(cap: usize) -> Self {
        World {
            policy: Policy::new(cap),
            present: [Cell::new(false), Cell::new(false), Cell::new(false), Cell::new(false)],
            pinned: [Cell::new(false), Cell::new(false), Cell::new(false), Cell::new(false)],
            refused: Cell::new(0),
            bh: FxBuildHasher::default(),
        }
    }
    fn hash(&self, k: u8) -> u64 { self.bh.hash_one(k) }
    /// storage insert of a vacant key + the policy message it produces
    fn insert(&mut self, k: u8) {
        if self.present[k as usize].get() { return; }
        self.present[k as usize].set(true);
        let (present, pinned, refused) = (&self.present, &self.pinned, &self.refused);
        let hash = self.bh.hash_one(k);
        self.policy.on_write(&k, hash, &self.bh, |v: &u8| remove_cb(present, pinned, refused, *v));
    }
    fn read(&mut self, k: u8) { let h = self.hash(k); self.policy.on_read_hit(&k, h); }
    /// explicit removal by the owner
    fn remove(&mut self, k: u8) {
        if !self.present[k as usize].get() { return; }
        self.present[k as usize].set(false);
        self.pinned[k as usize].set(false);
        self.policy.on_removed(&k);
    }
    fn unpin(&mut self, k: u8) {
        self.pinned[k as usize].set(false);
        let (present, pinned, refused) = (&self.present, &self.pinned, &self.refused);
        self.policy.unpin(&k, &self.bh, |v: &u8| remove_cb(present, pinned, refused, *v));
    }
    /// an un-pin notification that is processed while the owner has pinned the entry again
    /// (the pin flag is NOT cleared: maintenance runs later than the notification was sent)
    fn notify_unpin(&mut self, k: u8) {
        let (present, pinned, refused) = (&self.present, &self.pinned, &self.refused);
        self.policy.unpin(&k, &self.bh, |v: &u8| remove_cb(present, pinned, refused, *v));
    }
    fn trim(&mut self) {
        let (present, pinned, refused) = (&self.present, &self.pinned, &self.refused);
        self.policy.attempt_to_trim_overflowing_pinned(|v: &u8| remove_cb(present, pinned, refused, *v));
    }
    /// the invariant every step must preserve
    fn check(&self) {
        let l = policy::verif::lru(&self.policy);
        assert!(lru::verif::invariant(l, NK + 1), "Lru representation invariant (lists, lens, map)");
        let mut k = 0u8;
        let mut n_present = 0;
        while (k as usize) < NK {
            let tracked = lru::verif::region_of(l, &k).is_some();
            // refused victims stay tracked; evicted / removed keys are forgotten
            assert!(tracked == self.present[k as usize].get(), "policy tracks exactly the resident keys");
            if self.present[k as usize].get() { n_present += 1; }
            k += 1;
        }
        assert!(lru::verif::tracked(l) == n_present, "no ghost entries");
        let wcap = policy::verif::window_capacity(&self.policy);
        let main_limit = policy::verif::max_capacity(&self.policy) - wcap;
        assert!(l.window_len() <= wcap + 0, "window region within its capacity");
        assert!(l.probation_len() + l.protected_len() <= main_limit, "main region within its capacity");
        assert!(l.protected_len() <= policy::verif::protected_capacity(&self.policy).max(0) || true, "protected bound (informational)");
    }
}
/// `TinyLFU::remove_closure`: ask the pin predicate again, remove from storage only if not pinned
fn remove_cb(present: &[Cell<bool>; NK], pinned: &[Cell<bool>; NK], refused: &Cell<u8>, k: u8) -> bool {
    let i = k as usize;
    if !present[i].get() { return true; } // already gone from storage
    if pinned[i].get() { refused.set(refused.get() | (1 << k)); return false; }
    present[i].set(false);
    true
}

#[derive(Clone, Copy)]
enum Op { Insert(u8), Read(u8), Remove(u8), Unpin(u8), Trim, Pin(u8), Notify(u8) }
fn any_op() -> Op {
    let t: u8 = kani::any();
    let k: u8 = kani::any();
    kani::assume(k < NK as u8);
    match t % 7 { 0 => Op::Insert(k), 1 => Op::Read(k), 2 => Op::Remove(k), 3 => Op::Unpin(k), 4 => Op::Trim, 5 => Op::Notify(k), _ => Op::Pin(k) }
}
fn apply(w: &mut World, op: Op) {
    match op {
        Op::Insert(k) => w.insert(k),
        Op::Read(k) => w.read(k),
        Op::Remove(k) => w.remove(k),
        Op::Unpin(k) => w.unpin(k),
        Op::Trim => w.trim(),
        Op::Notify(k) => w.notify_unpin(k),
        Op::Pin(k) => { if w.present[k as usize].get() { w.pinned[k as usize].set(true); } }
    }
}

/// concrete prefix (constant-folded) builds the pre-state, then symbolic operations
macro_rules! policy_h {
    ($name:ident, $cap:expr, [$($pre:expr),*], $nsym:expr) => {
        h!($name, 8, {
            let mut w = World::new($cap);
            $( apply(&mut w, $pre); )*
            w.check();
            let mut i = 0;
            while i < $nsym {
                let op = any_op();
                apply(&mut w, op);
                w.check();
                i += 1;
            }
            let l = policy::verif::lru(&w.policy);
            kani::cover!(lru::verif::tracked(l) > 0, "post-state reached with resident keys");
            std::mem::forget(w);
        });
    };
}
/// one symbolic operation of a fixed kind (symbolic key) after a symbolic pin assignment
fn sym_pins(w: &mut World) {
    let mut k = 0;
    while k < NK {
        let p: bool = kani::any();
        if w.present[k].get() { w.pinned[k].set(p); }
        k += 1;
    }
}
macro_rules! policy_kind {
    ($name:ident, $cap:expr, [$($pre:expr),*], $kind:ident, $cov:expr, $covmsg:expr) => {
        h!($name, 8, {
            let mut w = World::new($cap);
            $( apply(&mut w, $pre); )*
            w.check();
            sym_pins(&mut w);
            let k: u8 = kani::any();
            kani::assume(k < NK as u8);
            let before = lru::verif::tracked(policy::verif::lru(&w.policy));
            apply(&mut w, mk_op!($kind, k));
            w.check();
            let l = policy::verif::lru(&w.policy);
            kani::cover!(($cov)(&w, k, before, l), $covmsg);
            std::mem::forget(w);
        });
    };
}
macro_rules! mk_op {
    (Trim, $k:expr) => { Op::Trim };
    ($kind:ident, $k:expr) => { Op::$kind($k) };
}
use Op::*;
// pre-state A (capacity 1): window and main full; B: a refused victim already in the Pinned region;
// C (capacity 2): window, probation and protected populated
policy_kind!(c16_q_kind_a_insert, 1, [Insert(0), Insert(1)], Insert, |w: &World, _k: u8, before: usize, l: &lru::Lru<u8>| w.refused.get() != 0 && lru::verif::tracked(l) > before, "a pinned victim refused removal and stayed tracked while the new key was admitted");
policy_kind!(c16_q_kind_a_unpin, 1, [Insert(0), Insert(1)], Unpin, |w: &World, k: u8, _b: usize, _l: &lru::Lru<u8>| w.present[k as usize].get(), "the un-pinned key is still resident");
policy_kind!(c16_q_kind_a_remove, 1, [Insert(0), Insert(1)], Remove, |w: &World, _k: u8, before: usize, l: &lru::Lru<u8>| lru::verif::tracked(l) < before, "a resident key was removed");
policy_kind!(c16_q_kind_a_read, 1, [Insert(0), Insert(1)], Read, |w: &World, k: u8, _b: usize, _l: &lru::Lru<u8>| w.present[k as usize].get(), "hit on a resident key");
policy_kind!(c16_q_kind_b_insert, 1, [Insert(0), Insert(1), Pin(1), Insert(2)], Insert, |w: &World, _k: u8, before: usize, l: &lru::Lru<u8>| w.refused.get() != 0 && lru::verif::tracked(l) > before, "a pinned victim refused removal and stayed tracked while the new key was admitted");
policy_kind!(c16_q_kind_b_unpin, 1, [Insert(0), Insert(1), Pin(1), Insert(2)], Unpin, |w: &World, k: u8, _b: usize, _l: &lru::Lru<u8>| w.present[k as usize].get(), "the un-pinned key is still resident");
policy_kind!(c16_q_kind_b_remove, 1, [Insert(0), Insert(1), Pin(1), Insert(2)], Remove, |w: &World, _k: u8, before: usize, l: &lru::Lru<u8>| lru::verif::tracked(l) < before, "a resident key was removed");
policy_kind!(c16_q_kind_b_notify, 1, [Insert(0), Insert(1), Pin(1), Insert(2)], Notify, |w: &World, k: u8, _b: usize, l: &lru::Lru<u8>| w.pinned[k as usize].get() && lru::verif::region_of(l, &k) == Some(Region::Pinned), "a stale un-pin notification for an entry that is pinned again: it stays in the Pinned region");
policy_kind!(c16_q_kind_d_notify, 1, [Insert(0), Insert(1), Pin(1), Insert(2), Remove(0)], Notify, |w: &World, k: u8, _b: usize, _l: &lru::Lru<u8>| w.present[k as usize].get(), "stale un-pin notification with an empty probation region");
policy_kind!(c16_q_kind_b_trim, 1, [Insert(0), Insert(1), Pin(1), Insert(2)], Trim, |w: &World, _k: u8, before: usize, l: &lru::Lru<u8>| lru::verif::tracked(l) < before || l.pinned_len() > 0, "trim evicted an un-pinned entry or kept a pinned one");
policy_kind!(c16_q_kind_b_read, 1, [Insert(0), Insert(1), Pin(1), Insert(2)], Read, |w: &World, k: u8, _b: usize, _l: &lru::Lru<u8>| w.present[k as usize].get(), "hit on a resident key");
policy_kind!(c16_q_kind_c_insert, 2, [Insert(0), Insert(1), Read(0), Insert(2)], Insert, |w: &World, _k: u8, before: usize, l: &lru::Lru<u8>| w.refused.get() != 0 && lru::verif::tracked(l) > before, "a pinned victim refused removal and stayed tracked while the new key was admitted");
policy_kind!(c16_q_kind_c_unpin, 2, [Insert(0), Insert(1), Read(0), Insert(2)], Unpin, |w: &World, k: u8, _b: usize, _l: &lru::Lru<u8>| w.present[k as usize].get(), "the un-pinned key is still resident");
policy_kind!(c16_q_kind_c_read, 2, [Insert(0), Insert(1), Read(0), Insert(2)], Read, |w: &World, k: u8, _b: usize, _l: &lru::Lru<u8>| w.present[k as usize].get(), "hit on a resident key");
// D: Pinned region populated and probation emptied (the pre-state of the repaired defect)
policy_kind!(c16_q_kind_d_unpin, 1, [Insert(0), Insert(1), Pin(1), Insert(2), Remove(0)], Unpin, |w: &World, k: u8, _b: usize, _l: &lru::Lru<u8>| w.present[k as usize].get(), "the un-pinned key is still resident");
policy_kind!(c16_q_kind_d_insert, 1, [Insert(0), Insert(1), Pin(1), Insert(2), Remove(0)], Insert, |w: &World, _k: u8, before: usize, l: &lru::Lru<u8>| lru::verif::tracked(l) > before, "admitted without a duel (the main region had room)");

// (two and three fully symbolic operations were tried as well: no answer within 30 minutes)
// capacity 1: window 1, main 1
policy_h!(c16_t_policy_cap1_full_1op, 1, [Insert(0), Insert(1)], 1);
policy_h!(c16_t_policy_cap1_full_pinned_1op, 1, [Insert(0), Insert(1), Pin(1), Pin(0)], 1);
policy_h!(c16_t_policy_cap1_pinned_region_1op, 1, [Insert(0), Insert(1), Pin(1), Insert(2)], 1);
// capacity 2: window 1, main 1 (protected 1, probation 1 -> main 2)
policy_h!(c16_t_policy_cap2_full_1op, 2, [Insert(0), Insert(1), Insert(2)], 1);

/// the scenario behind the reading-level suspicion of DESIGN C16: a key in the Pinned region, the
/// Probation region emptied by explicit removals, then the key is un-pinned
h!(c16_q_policy_unpin_with_empty_probation, 8, {
    let mut w = World::new(1);
    apply(&mut w, Insert(0));
    apply(&mut w, Insert(1)); // 0 -> probation, 1 in window
    apply(&mut w, Pin(1));
    apply(&mut w, Insert(2)); // duel: candidate 1 loses, removal refused -> 1 to Pinned
    w.check();
    let l = policy::verif::lru(&w.policy);
    assert!(lru::verif::region_of(l, &1) == Some(Region::Pinned), "refused victim moved to the Pinned region");
    apply(&mut w, Remove(0)); // probation now empty
    w.check();
    apply(&mut w, Unpin(1));
    w.check();
    kani::cover!(true, "reached the end");
    std::mem::forget(w);
});

// ------------------------------------------------------------------------------------------
// Sketch: 4-bit counters

macro_rules! sketch_counters {
    ($name:ident, $cap:expr) => {
        h!($name, 20, {
            let mut s = Sketch::new($cap);
            let n = sketch::verif::table_len(&s);
            // arbitrary counter table (first two words; the rest stays zero)
            let mut i = 0;
            while i < n && i < 2 { let wv: u64 = kani::any(); sketch::verif::set_table_word(&mut s, i, wv); i += 1; }
            let hsh: u64 = kani::any();
            let before = sketch::verif::cms_estimate(&s, hsh);
            assert!(before <= 15, "estimate is a 4-bit value");
            let snapshot0 = sketch::verif::table_word(&s, 0);
            sketch::verif::cms_increment(&mut s, hsh); // every index computed must be in bounds (CBMC checks)
            let after = sketch::verif::cms_estimate(&s, hsh);
            assert!(after >= before, "increment never lowers the estimate of the incremented hash");
            assert!(after <= 15, "saturating at 15");
            assert!(s.estimate_frequency(hsh) <= 16, "estimate_frequency <= 16");
            // a counter never carries into its neighbour: each nibble of word 0 changed by 0 or +1
            let snapshot1 = sketch::verif::table_word(&s, 0);
            let mut j = 0;
            while j < 16 {
                let (a, b) = ((snapshot0 >> (4 * j)) & 0xF, (snapshot1 >> (4 * j)) & 0xF);
                assert!(b == a || (b == a + 1 && a < 15), "nibble changed by 0 or +1, no carry");
                j += 1;
            }
            kani::cover!(before == 15 || $cap > 8, "saturated counter (small tables: the two symbolic words cover all rows)");
            kani::cover!(after == before + 1, "estimate grew");
            std::mem::forget(s);
        });
    };
}
sketch_counters!(c16_q_sketch_counters_cap1, 1);
sketch_counters!(c16_q_sketch_counters_cap4, 4);
sketch_counters!(c16_q_sketch_counters_cap16, 16);
sketch_counters!(c16_t_sketch_counters_cap64, 64);
sketch_counters!(c16_t_sketch_counters_cap7, 7);
h!(c16_q_sketch_reset_halves, 20, {
    let mut s = Sketch::new(4);
    let n = sketch::verif::table_len(&s);
    assert!(n == 1, "4 rows x 4 counters = one word");
    let wv: u64 = kani::any();
    sketch::verif::set_table_word(&mut s, 0, wv);
    sketch::verif::cms_reset(&mut s);
    let r = sketch::verif::table_word(&s, 0);
    let mut j = 0;
    while j < 16 {
        assert!((r >> (4 * j)) & 0xF == ((wv >> (4 * j)) & 0xF) / 2, "reset halves every counter independently");
        j += 1;
    }
    kani::cover!(wv == u64::MAX, "all counters saturated");
});
h!(c16_q_sketch_record_access, 8, {
    let cap: usize = 4;
    let mut s = Sketch::new(cap);
    let (h1, h2, h3): (u64, u64, u64) = (kani::any(), kani::any(), kani::any());
    s.record_access(h1);
    s.record_access(h2);
    s.record_access(h3);
    assert!(s.estimate_frequency(h1) <= 16);
    assert!(sketch::verif::additions(&s) < cap.max(1) + 1, "addition counter wraps at the reset threshold");
    kani::cover!(h1 == h2 && s.estimate_frequency(h1) >= 2, "a repeated hash is counted");
    kani::cover!(sketch::verif::additions(&s) == 3, "three accesses below the reset threshold");
    std::mem::forget(s);
});

// ------------------------------------------------------------------------------------------
// twins
h!(c16_xq_policy_twin, 8, {
    let mut w = World::new(1);
    apply(&mut w, Insert(0));
    apply(&mut w, Insert(1));
    apply(&mut w, Insert(2));
    let l = policy::verif::lru(&w.policy);
    assert!(lru::verif::tracked(l) == 3, "TWIN deliberately wrong: nothing is ever evicted");
    std::mem::forget(w);
});

include!("gen/playback_c16.rs");
