//! C11 — key scheme of both shipped backends, on the functions cut verbatim out of
//! kv_database/{rocksdb,fjall}.rs (see lib/gen_kern.py): framing, scan isolation, upper bound,
//! prefix extractor, wide-column key injectivity, agreement of all call sites.
use crate::common::*;
use crate::kv_database::{DiscriminantEncoding, KeyOfSetColumn, WideColumn, WideColumnValue};
use qbice_serialize::{Decode, Decoder, Encode, Encoder, Plugin};
use qbice_stable_type_id::Identifiable;

#[path = "gen/rocks_keys.rs"]
pub mod rocks;
#[path = "gen/fjall_keys.rs"]
pub mod fjall;

/// An encoded key/element as an arbitrary byte string: `Encode` emits the bytes verbatim, so the
/// framing results do not depend on any particular serializer output.
#[derive(Clone, Copy, Debug, PartialEq, Eq, Hash)]
pub struct Raw<const L: usize>(pub [u8; L]);
impl<const L: usize> Encode for Raw<L> {
    fn encode<E: Encoder + ?Sized>(&self, e: &mut E, _p: &Plugin, _s: &mut qbice_serialize::session::Session) -> std::io::Result<()> {
        e.emit_raw_bytes(&self.0)
    }
}
impl<const L: usize> Decode for Raw<L> {
    fn decode<D: Decoder + ?Sized>(d: &mut D, _p: &Plugin, _s: &mut qbice_serialize::session::Session) -> std::io::Result<Self> {
        let v = d.read_raw_bytes(L)?;
        let mut a = [0u8; L];
        a.copy_from_slice(&v);
        Ok(Raw(a))
    }
}
fn any_raw<const L: usize>() -> Raw<L> { Raw(kani::any()) }

macro_rules! set_col {
    ($name:ident, $k:ty, $e:ty) => {
        #[derive(Identifiable)]
        #[stable_type_id_crate(qbice_stable_type_id)]
        pub struct $name;
        impl KeyOfSetColumn for $name { type Key = $k; type Element = $e; }
    };
}
set_col!(S00, Raw<0>, Raw<0>);
set_col!(S01, Raw<0>, Raw<1>);
set_col!(S10, Raw<1>, Raw<0>);
set_col!(S11, Raw<1>, Raw<1>);
set_col!(S12, Raw<1>, Raw<2>);
set_col!(S20, Raw<2>, Raw<0>);
set_col!(S21, Raw<2>, Raw<1>);
set_col!(S22, Raw<2>, Raw<2>);
set_col!(S30, Raw<3>, Raw<0>);
set_col!(SU16, u16, u16);       // real varint key and element
set_col!(SPAIR, (u64, u64), (u8, u16));

fn eq_bytes(a: &[u8], b: &[u8]) -> bool {
    if a.len() != b.len() { return false; }
    let mut i = 0;
    let mut eq = true;
    while i < a.len() { eq &= a[i] == b[i]; i += 1; }
    eq
}
fn is_prefix(p: &[u8], k: &[u8]) -> bool {
    if p.len() > k.len() { return false; }
    let mut i = 0;
    let mut eq = true;
    while i < p.len() { eq &= p[i] == k[i]; i += 1; }
    eq
}
/// byte-lexicographic a < b (the order both stores use)
fn lex_lt(a: &[u8], b: &[u8]) -> bool {
    let mut i = 0;
    while i < a.len() && i < b.len() {
        if a[i] != b[i] { return a[i] < b[i]; }
        i += 1;
    }
    a.len() < b.len()
}

macro_rules! h {
    ($name:ident, $unw:expr, $body:block) => {
        #[kani::proof]
        #[kani::unwind($unw)]
        #[kani::stub(std::hash::RandomState::new, rs_stub)]
        #[kani::stub(alloc::fmt::format, fmt_stub)]
        fn $name() $body
    };
}

// ------------------------------------------------------------------------------------------
// A. exclusive upper bound of a prefix scan (RocksDB)

macro_rules! upper_bound {
    ($name:ident, $lp:expr, $unw:expr) => {
        h!($name, $unw, {
            let p: [u8; $lp] = kani::any();
            let kbuf: [u8; $lp + 3] = kani::any();
            let lk: usize = kani::any();
            kani::assume(lk <= $lp + 3);
            let k = &kbuf[..lk];
            let ub = rocks::Impl::prefix_upper_bound(&p);
            let in_range = !lex_lt(k, &p) && (ub.is_empty() || lex_lt(k, &ub));
            assert!(in_range == is_prefix(&p, k), "k in [prefix, upper_bound) <=> k starts with prefix");
            kani::cover!(ub.is_empty(), "no upper bound (empty or all-0xFF prefix)");
            kani::cover!($lp < 2 || (!ub.is_empty() && ub.len() < $lp), "trailing 0xFF bytes were cut (needs a prefix of 2+ bytes)");
            kani::cover!(in_range && lk > $lp, "a proper extension of the prefix is in range");
            std::mem::forget(ub);
        });
    };
}
upper_bound!(c11_q_upper_bound_len0, 0, 6);
upper_bound!(c11_q_upper_bound_len1, 1, 7);
upper_bound!(c11_q_upper_bound_len2, 2, 8);
upper_bound!(c11_q_upper_bound_len3, 3, 9);
upper_bound!(c11_q_upper_bound_len4, 4, 10);
// prefixes as long as real scan prefixes (8-byte header + encoded key of 0..3 bytes)
upper_bound!(c11_q_upper_bound_len8, 8, 14);
upper_bound!(c11_q_upper_bound_len9, 9, 15);
upper_bound!(c11_t_upper_bound_len10, 10, 16);
upper_bound!(c11_t_upper_bound_len11, 11, 17);

// ------------------------------------------------------------------------------------------
// B. set-key framing / scan isolation

/// both backends, column pair (A, B): prefix(a) is a byte prefix of member(b, y) <=> enc(a) == enc(b);
/// member keys equal <=> (a,x) == (b,y) as byte strings; header = LE length; all call sites agree.
macro_rules! framing {
    ($name:ident, $backend:ident, $ca:ty, $cb:ty, $la:expr, $lx:expr, $lb:expr, $ly:expr, $rocks:expr) => {
        h!($name, 16, {
            let db = $backend::Impl { plugin: Plugin::new() };
            let (a, x): (Raw<$la>, Raw<$lx>) = (any_raw(), any_raw());
            let (b, y): (Raw<$lb>, Raw<$ly>) = (any_raw(), any_raw());
            let pa = db.site_scan_members_0::<$ca>(&a);
            let ma = db.site_insert_member_0::<$ca>(&a, &x);
            let mb = db.site_insert_member_0::<$cb>(&b, &y);
            // header
            assert!(pa.len() == 8 + $la, "prefix = 8-byte header + encoded key");
            let mut hdr = [0u8; 8];
            hdr.copy_from_slice(&pa[..8]);
            assert!(u64::from_le_bytes(hdr) == $la as u64, "header is the little-endian length of the encoded key");
            assert!(is_prefix(&pa, &ma), "every member key of a starts with prefix(a)");
            // isolation
            let same_key = $la == $lb && eq_bytes(&a.0, &b.0);
            assert!(is_prefix(&pa, &mb) == same_key, "a scan of key a sees member keys of a only");
            let same_all = same_key && $lx == $ly && eq_bytes(&x.0, &y.0);
            assert!(eq_bytes(&ma, &mb) == same_all, "member key is injective in (key, element)");
            // every call site composes the same key
            assert!(eq_bytes(&ma, &db.site_insert_member_1::<$ca>(&a, &x)), "insert_member (buffer path) agrees");
            assert!(eq_bytes(&ma, &db.site_delete_member_0::<$ca>(&a, &x)), "delete_member agrees");
            assert!(eq_bytes(&ma, &db.site_delete_member_1::<$ca>(&a, &x)), "delete_member (buffer path) agrees");
            let mut direct = Vec::new();
            db.encode_value_length_prefixed(&a, &mut direct);
            assert!(eq_bytes(&direct, &pa), "scan prefix is the length-prefixed key");
            if $rocks {
                // prefix extractor and scan range of the RocksDB backend
                assert!(rocks::in_domain(&ma) && rocks::in_domain(&pa), "in the extractor's domain");
                assert!(eq_bytes(rocks::Impl::transform_key(&ma), &pa), "extractor(member key) = prefix");
                assert!(eq_bytes(rocks::Impl::transform_key(&pa), &pa), "extractor(prefix) = prefix");
                // (membership in the scan range [prefix, upper_bound) <=> starts-with is decided for
                // prefixes of this length by c11_*_upper_bound_len8..11)
            }
            kani::cover!(!($la == $lb && $lx == $ly && $lx > 0) || (same_key && !same_all), "same key, different element (where the instance admits it)");
            kani::cover!(($la == 0 && $lb == 0) || !same_key, "different keys (where the instance admits it)");
            std::mem::forget((pa, ma, mb, direct));
        });
    };
}
framing!(c11_q_framing_rocks_11_11, rocks, S11, S11, 1, 1, 1, 1, true);
framing!(c11_q_framing_rocks_10_21, rocks, S10, S21, 1, 0, 2, 1, true);   // prefix-related keys: a = b[..1]
framing!(c11_q_framing_rocks_21_12, rocks, S21, S12, 2, 1, 1, 2, true);   // enc(a) = enc(b) ++ y ?
framing!(c11_q_framing_rocks_01_11, rocks, S01, S11, 0, 1, 1, 1, true);   // empty key encoding
framing!(c11_q_framing_rocks_00_00, rocks, S00, S00, 0, 0, 0, 0, true);   // everything empty
framing!(c11_t_framing_rocks_22_22, rocks, S22, S22, 2, 2, 2, 2, true);
framing!(c11_t_framing_rocks_30_12, rocks, S30, S12, 3, 0, 1, 2, true);
framing!(c11_t_framing_rocks_20_11, rocks, S20, S11, 2, 0, 1, 1, true);
framing!(c11_q_framing_fjall_11_11, fjall, S11, S11, 1, 1, 1, 1, false);
framing!(c11_q_framing_fjall_10_21, fjall, S10, S21, 1, 0, 2, 1, false);
framing!(c11_q_framing_fjall_21_12, fjall, S21, S12, 2, 1, 1, 2, false);
framing!(c11_q_framing_fjall_01_11, fjall, S01, S11, 0, 1, 1, 1, false);
framing!(c11_t_framing_fjall_00_00, fjall, S00, S00, 0, 0, 0, 0, false);
framing!(c11_t_framing_fjall_22_22, fjall, S22, S22, 2, 2, 2, 2, false);
framing!(c11_t_framing_fjall_30_12, fjall, S30, S12, 3, 0, 1, 2, false);

/// scan returns exactly the element that was written: decode(member_key[8+len..]) == element,
/// with the real varint encodings on both sides
macro_rules! scan_decode {
    ($name:ident, $backend:ident, $col:ty, $k:ty, $e:ty, $unw:expr) => {
        h!($name, $unw, {
            let db = $backend::Impl { plugin: Plugin::new() };
            let k: $k = kani::any();
            let e: $e = kani::any();
            let m = db.site_insert_member_0::<$col>(&k, &e);
            let got = db.scan_decode_element::<$col>(&m);
            assert!(got == Some(e), "scan yields the element that was inserted");
            let p = db.site_scan_members_0::<$col>(&k);
            assert!(is_prefix(&p, &m), "member key starts with the scan prefix");
            kani::cover!(m.len() <= p.len() + 2, "shortest element encoding");
            kani::cover!(p.len() > 9, "multi-byte key encoding");
            std::mem::forget((m, p));
        });
    };
}
scan_decode!(c11_q_scan_decode_rocks_u16, rocks, SU16, u16, u16, 16);
scan_decode!(c11_q_scan_decode_fjall_u16, fjall, SU16, u16, u16, 16);
scan_decode!(c11_t_scan_decode_rocks_pair, rocks, SPAIR, (u64, u64), (u8, u16), 30);
scan_decode!(c11_t_scan_decode_fjall_pair, fjall, SPAIR, (u64, u64), (u8, u16), 30);

// two *different real keys*: scan isolation with the real varint encoder in the loop
macro_rules! scan_isolation_real {
    ($name:ident, $backend:ident, $rocks:expr) => {
        h!($name, 16, {
            let db = $backend::Impl { plugin: Plugin::new() };
            let (a, b): (u16, u16) = (kani::any(), kani::any());
            let y: u16 = kani::any();
            let pa = db.site_scan_members_0::<SU16>(&a);
            let mb = db.site_insert_member_0::<SU16>(&b, &y);
            assert!(is_prefix(&pa, &mb) == (a == b), "scan(a) sees a member of b <=> a == b");
            kani::cover!(a != b && pa.len() != mb.len() - 1, "keys with encodings of different length");
            kani::cover!(a == b, "same key");
            std::mem::forget((pa, mb));
        });
    };
}
scan_isolation_real!(c11_q_scan_isolation_rocks_u16, rocks, true);
scan_isolation_real!(c11_q_scan_isolation_fjall_u16, fjall, false);

// ------------------------------------------------------------------------------------------
// C. wide-column keys: (key, discriminant) -> bytes injective; all call sites agree

static mut D1: u16 = 0;
static mut D2: u16 = 0;
macro_rules! wide_col {
    ($col:ident, $v1:ident, $v2:ident, $k:ty, $d:ty, $enc:expr, $mk1:expr, $mk2:expr) => {
        #[derive(Identifiable)]
        #[stable_type_id_crate(qbice_stable_type_id)]
        pub struct $col;
        impl WideColumn for $col {
            type Key = $k;
            type Discriminant = $d;
            fn discriminant_encoding() -> DiscriminantEncoding { $enc }
        }
        #[derive(Debug, Clone, Encode, Decode)]
        #[serialize_crate(qbice_serialize)]
        pub struct $v1;
        #[derive(Debug, Clone, Encode, Decode)]
        #[serialize_crate(qbice_serialize)]
        pub struct $v2;
        impl WideColumnValue<$col> for $v1 { fn discriminant() -> $d { let d = unsafe { D1 }; ($mk1)(d) } }
        impl WideColumnValue<$col> for $v2 { fn discriminant() -> $d { let d = unsafe { D2 }; ($mk2)(d) } }
    };
}
// symbolic discriminants through D1/D2 (three instances with (u64,u64) keys / (u64,u8) discriminants were
// removed: 20+ minutes each and time-outs under load)
wide_col!(WSufU16, WSufU16A, WSufU16B, u16, u16, DiscriminantEncoding::Suffixed, |d: u16| d, |d: u16| d);
wide_col!(WPreU16, WPreU16A, WPreU16B, u16, u16, DiscriminantEncoding::Prefixed, |d: u16| d, |d: u16| d);
wide_col!(WSufPair, WSufPairA, WSufPairB, (u64, u64), u8, DiscriminantEncoding::Suffixed, |d: u16| d as u8, |d: u16| d as u8);
wide_col!(WPrePair, WPrePairA, WPrePairB, u64, (u64, u8), DiscriminantEncoding::Prefixed, |d: u16| (d as u64 * 0x0101_0101_0101, d as u8), |d: u16| (d as u64 * 0x0101_0101_0101, d as u8));
wide_col!(WUnitKey, WUnitKeyA, WUnitKeyB, (), u16, DiscriminantEncoding::Prefixed, |d: u16| d, |d: u16| d);
wide_col!(WUnitKeySuf, WUnitKeySufA, WUnitKeySufB, (), u16, DiscriminantEncoding::Suffixed, |d: u16| d, |d: u16| d);
wide_col!(WUnitDisc, WUnitDiscA, WUnitDiscB, u16, (), DiscriminantEncoding::Suffixed, |_d: u16| (), |_d: u16| ());

macro_rules! wide {
    ($name:ident, $backend:ident, $col:ty, $v1:ty, $v2:ty, $k:ty, $unw:expr, $dmask:expr) => {
        h!($name, $unw, {
            let db = $backend::Impl { plugin: Plugin::new() };
            let (d1, d2): (u16, u16) = (kani::any(), kani::any());
            kani::assume(d1 & !$dmask == 0 && d2 & !$dmask == 0);
            unsafe { D1 = d1; D2 = d2; }
            let (k1, k2): ($k, $k) = (kani::any(), kani::any());
            let e1 = db.site_put_0::<$col, $v1>(&k1);
            let e2 = db.site_put_0::<$col, $v2>(&k2);
            let same = k1 == k2 && d1 == d2;
            assert!(eq_bytes(&e1, &e2) == same, "store key injective in (key, value-type discriminant)");
            assert!(eq_bytes(&e1, &db.site_put_1::<$col, $v1>(&k1)), "put (buffer path) agrees");
            assert!(eq_bytes(&e1, &db.site_delete_0::<$col, $v1>(&k1)), "delete agrees");
            assert!(eq_bytes(&e1, &db.site_delete_1::<$col, $v1>(&k1)), "delete (buffer path) agrees");
            assert!(eq_bytes(&e1, &db.site_get_wide_column_0::<$col, $v1>(&k1)), "get_wide_column reads the key that put wrote");
            kani::cover!($dmask == 0 || (k1 == k2 && d1 != d2), "same key, two value types (non-unit discriminants)");
            kani::cover!(std::mem::size_of::<$k>() == 0 || (k1 != k2 && d1 == d2 && e1.len() != e2.len()), "same value type, keys with encodings of different length (non-unit keys)");
            std::mem::forget((e1, e2));
        });
    };
}
wide!(c11_q_wide_rocks_suffixed_u16, rocks, WSufU16, WSufU16A, WSufU16B, u16, 12, 0xFFFFu16);
wide!(c11_q_wide_rocks_prefixed_u16, rocks, WPreU16, WPreU16A, WPreU16B, u16, 12, 0xFFFFu16);
wide!(c11_q_wide_fjall_suffixed_u16, fjall, WSufU16, WSufU16A, WSufU16B, u16, 12, 0xFFFFu16);
wide!(c11_q_wide_fjall_prefixed_u16, fjall, WPreU16, WPreU16A, WPreU16B, u16, 12, 0xFFFFu16);
wide!(c11_q_wide_rocks_unit_key, rocks, WUnitKey, WUnitKeyA, WUnitKeyB, (), 8, 0xFFFFu16);
wide!(c11_q_wide_fjall_unit_key, fjall, WUnitKey, WUnitKeyA, WUnitKeyB, (), 8, 0xFFFFu16);
wide!(c11_q_wide_fjall_unit_key_suffixed, fjall, WUnitKeySuf, WUnitKeySufA, WUnitKeySufB, (), 8, 0xFFFFu16);
wide!(c11_t_wide_rocks_unit_disc, rocks, WUnitDisc, WUnitDiscA, WUnitDiscB, u16, 8, 0u16);
wide!(c11_t_wide_fjall_unit_disc, fjall, WUnitDisc, WUnitDiscA, WUnitDiscB, u16, 8, 0u16);

// ------------------------------------------------------------------------------------------
// twins

h!(c11_xq_upper_bound_twin, 9, {
    let p: [u8; 2] = kani::any();
    let ub = rocks::Impl::prefix_upper_bound(&p);
    assert!(ub.len() == 2 || ub.is_empty(), "TWIN deliberately wrong: the bound never gets shorter");
    std::mem::forget(ub);
});
h!(c11_x_framing_twin, 16, {
    // claims that a bare concatenation (no header) would already isolate keys
    let db = rocks::Impl { plugin: Plugin::new() };
    let (a, x): (Raw<1>, Raw<2>) = (any_raw(), any_raw());
    let (b, y): (Raw<2>, Raw<1>) = (any_raw(), any_raw());
    let ma = db.site_insert_member_0::<S12>(&a, &x);
    let mb = db.site_insert_member_0::<S21>(&b, &y);
    assert!(!eq_bytes(&ma[8..], &mb[8..]), "TWIN deliberately wrong: header-less member keys never coincide");
    std::mem::forget((ma, mb));
});

include!("gen/playback_c11.rs");
