//! C05 (mechanism level) — `Guard` (spawn-on-drop) for every cancellation point, and `CalleeOrder`
//! (provisional callee registration and its undo), both compiled from the real qbice sources.
//! Also hosts the C14 part that needs `QueryID` (c14e_* harnesses).
use crate::common::*;
use std::future::Future;
use std::pin::Pin;
use std::task::{Context, Poll, Waker};

#[path = "gen/guard.rs"]
pub mod guard;
#[path = "gen/engine_items.rs"]
pub mod items;
use guard::GuardExt;
use items::QueryID;
use qbice_stable_hash::Compact128;

// observations (scalar statics)
static mut QV5_SPAWNED: u8 = 0;
static mut QV5_POLLS: u8 = 0;
static mut QV5_COMPLETED: u8 = 0;
static mut QV5_SPAWNED_UNFINISHED: bool = false;

/// stands for `tokio::spawn` (substituted in the copy of guard.rs): records the call and then drives
/// the future to completion the way the runtime would
pub fn spawn_observer<F: Future + Send + 'static>(f: F) {
    unsafe {
        QV5_SPAWNED += 1;
        QV5_SPAWNED_UNFINISHED = QV5_COMPLETED == 0;
    }
    let mut f = Box::pin(f);
    let mut cx = Context::from_waker(Waker::noop());
    let mut i = 0;
    while i < 5 {
        if f.as_mut().poll(&mut cx).is_ready() { break; }
        i += 1;
    }
}

/// publishing section: `n` suspension points, then completes with `val`
struct Steps { remaining: u8, val: u8 }
impl Future for Steps {
    type Output = u8;
    fn poll(mut self: Pin<&mut Self>, _cx: &mut Context<'_>) -> Poll<u8> {
        unsafe {
            assert!(QV5_COMPLETED == 0, "inner future polled after it completed");
            QV5_POLLS += 1;
        }
        if self.remaining == 0 {
            unsafe { QV5_COMPLETED += 1; }
            Poll::Ready(self.val)
        } else {
            self.remaining -= 1;
            Poll::Pending
        }
    }
}

macro_rules! h {
    ($name:ident, $unw:expr, $body:block) => {
        #[kani::proof]
        #[kani::unwind($unw)]
        #[kani::stub(std::hash::RandomState::new, rs_stub)]
        #[kani::stub(alloc::fmt::format, fmt_stub)]
        fn $name() $body
    };
}

h!(c05_q_guard_every_cancellation_point, 8, {
    let n: u8 = kani::any(); // suspension points of the publishing section
    let k: u8 = kani::any(); // polls the caller makes before it drops the guard (the cancellation point)
    let val: u8 = kani::any();
    kani::assume(n <= 3 && k <= 4);
    let mut g = Steps { remaining: n, val }.guarded();
    let mut cx = Context::from_waker(Waker::noop());
    let mut got: Option<u8> = None;
    let mut i = 0;
    while i < k {
        if got.is_some() { break; } // a caller never polls a finished future again
        match Pin::new(&mut g).poll(&mut cx) {
            Poll::Ready(v) => { got = Some(v); }
            Poll::Pending => {}
        }
        i += 1;
    }
    drop(g);
    unsafe {
        assert!(QV5_COMPLETED == 1, "the publishing section always runs to completion, exactly once");
        assert!(QV5_POLLS == n + 1, "the section is polled exactly until it completes");
        if k > n {
            assert!(got == Some(val), "completion is forwarded to the caller on the poll that completes");
            assert!(QV5_SPAWNED == 0, "a completed section is never spawned");
        } else {
            assert!(got.is_none(), "no value before completion");
            assert!(QV5_SPAWNED == 1 && QV5_SPAWNED_UNFINISHED, "dropped before completion: spawned exactly once, unfinished");
        }
    }
    kani::cover!(k == 0, "dropped before the first poll");
    kani::cover!(k > 0 && k <= n, "dropped at a suspension point");
    kani::cover!(k == n + 1, "dropped right after completion");
});

// (a harness with a guarded section nested inside another guarded section was tried: the two levels
// of `Box<dyn Future>` make CBMC unroll every `poll` implementation at every dynamic call; no
// answer in 25 minutes even with concrete suspension counts.  Not part of the claim.)

// other output type, suspension points fixed per instance, cancellation point symbolic
macro_rules! guard_inst {
    ($name:ident, $n:expr) => {
        h!($name, 8, {
            struct S2 { remaining: u8, val: (u64, bool) }
            impl Future for S2 {
                type Output = (u64, bool);
                fn poll(mut self: Pin<&mut Self>, _cx: &mut Context<'_>) -> Poll<(u64, bool)> {
                    unsafe { assert!(QV5_COMPLETED == 0, "inner future polled after it completed"); QV5_POLLS += 1; }
                    if self.remaining == 0 { unsafe { QV5_COMPLETED += 1; } Poll::Ready(self.val) } else { self.remaining -= 1; Poll::Pending }
                }
            }
            let k: u8 = kani::any();
            let val: (u64, bool) = kani::any();
            kani::assume(k <= $n + 2);
            let mut g = S2 { remaining: $n, val }.guarded();
            let mut cx = Context::from_waker(Waker::noop());
            let mut got = None;
            let mut i = 0;
            while i < k {
                if got.is_some() { break; }
                if let Poll::Ready(v) = Pin::new(&mut g).poll(&mut cx) { got = Some(v); }
                i += 1;
            }
            drop(g);
            unsafe {
                assert!(QV5_COMPLETED == 1 && QV5_POLLS == $n + 1, "runs to completion exactly once, polled exactly until it completes");
                assert!((QV5_SPAWNED == 1) == (k <= $n), "spawned iff dropped before completion");
                assert!(got.is_none() || got == Some(val), "the value is forwarded unchanged");
            }
            kani::cover!(k <= $n, "dropped before completion");
            kani::cover!(k > $n, "completed under the caller");
        });
    };
}
guard_inst!(c05_q_guard_pair_output_n0, 0);
guard_inst!(c05_q_guard_pair_output_n2, 2);
guard_inst!(c05_t_guard_pair_output_n3, 3);

/// the documented misuse: polling a guard again after it completed panics (and does not re-run anything)
#[kani::proof]
#[kani::unwind(4)]
#[kani::should_panic]
fn c05_q_guard_poll_after_completion_panics() {
    let mut g = Steps { remaining: 0, val: 1 }.guarded();
    let mut cx = Context::from_waker(Waker::noop());
    let first = Pin::new(&mut g).poll(&mut cx);
    assert!(matches!(first, Poll::Ready(1)));
    let _ = Pin::new(&mut g).poll(&mut cx); // "Guard polled after completion"
}

// (CalleeOrder — provisional callee registration and its undo — was extracted and driven as well,
// but every variant, including a fully case-split single abort on a concrete prefix, ran CBMC out
// of memory: 32-byte QueryIDs inside nested enum/option/array values defeat constant propagation.
// It is therefore NOT part of the C05 claim; see DESIGN.md.)

// ------------------------------------------------------------------------------------------
// C14 (engine part): query ids

h!(c14e_q_query_id_parts, 4, {
    let (t, hsh): (u128, u128) = (kani::any(), kani::any());
    let q = QueryID::from_parts(Compact128::from(t), Compact128::from(hsh));
    assert!(q.stable_type_id().as_u128() == t, "the type id is recovered from a query id");
    assert!(q.hash_128() == hsh && q.compact_hash_128().to_u128() == hsh, "the key hash is recovered");
    assert!(q.compact_stable_type_id().to_u128() == t);
    let (t2, h2): (u128, u128) = (kani::any(), kani::any());
    let q2 = QueryID::from_parts(Compact128::from(t2), Compact128::from(h2));
    assert!((q == q2) == (t == t2 && hsh == h2), "query ids are equal iff type id and key hash are equal");
    kani::cover!(t == t2 && hsh != h2, "same query type, different keys");
    kani::cover!(t != t2 && hsh == h2, "different query types, same key hash");
});

h!(c05_xq_guard_twin, 8, {
    let n: u8 = kani::any();
    kani::assume(n <= 2);
    let g = Steps { remaining: n, val: 1 }.guarded();
    drop(g);
    assert!(unsafe { QV5_SPAWNED } == 0, "TWIN deliberately wrong: dropping an unfinished guard spawns nothing");
});

include!("gen/playback_c05.rs");
