#![allow(forgetting_copy_types, dead_code, unused_imports, unused_variables, unused_mut, private_interfaces, clippy::all)]
pub mod common;
pub mod shim;

#[path = "gen/kv_database.rs"]
pub mod kv_database;
#[path = "gen/write_batch.rs"]
pub mod write_batch;
#[path = "gen/write_manager.rs"]
pub mod write_manager;
#[path = "gen/tiny_lfu.rs"]
pub mod tiny_lfu;

#[cfg(kani)]
mod c10;
#[cfg(kani)]
mod c11;
#[cfg(kani)]
mod c05;
#[cfg(kani)]
mod c09;
#[cfg(kani)]
mod c16;
