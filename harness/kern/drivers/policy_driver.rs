/// Driver: read-only access to `Policy`'s private parts.
pub mod verif {
    use super::*;
    pub fn lru<K>(p: &Policy<K>) -> &lru::Lru<K> { &p.lru }
    pub fn window_capacity<K>(p: &Policy<K>) -> usize { p.window_capacity }
    pub fn protected_capacity<K>(p: &Policy<K>) -> usize { p.protected_capacity }
    pub fn max_capacity<K>(p: &Policy<K>) -> usize { p.max_capacity }
}
