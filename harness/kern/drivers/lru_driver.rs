/// Driver: representation invariant of `Lru` / `LruList` (private fields), read-only.
pub mod verif {
    use super::*;

    /// Walks every region list from head and from tail (at most `max` steps each) and checks:
    /// forward length == backward length == lens[r]; prev/next mirror each other; head.prev and
    /// tail.next are None; every node's key is in the map with this node pointer and this region;
    /// map.len() == sum of lens (so the map has no entry without a node).
    pub fn invariant<K: std::hash::Hash + Eq + Clone>(l: &Lru<K>, max: usize) -> bool {
        let mut total = 0usize;
        let mut r = 0usize;
        while r < 4 {
            let region = match r { 0 => Region::Window, 1 => Region::Probation, 2 => Region::Protected, _ => Region::Pinned };
            let mut n = 0usize;
            let mut cur = l.list.heads[r];
            let mut prev: Option<NonNull<Node<K>>> = None;
            while let Some(p) = cur {
                if n > max { return false; }
                let node = unsafe { p.as_ref() };
                if node.prev != prev { return false; }
                match l.map.get(&node.key) {
                    Some((mp, mr)) => { if *mp != p || *mr != region { return false; } }
                    None => return false,
                }
                prev = cur;
                cur = node.next;
                n += 1;
            }
            if l.list.tails[r] != prev { return false; }
            if l.list.lens[r] != n { return false; }
            if (l.list.heads[r].is_none()) != (l.list.tails[r].is_none()) { return false; }
            total += n;
            r += 1;
        }
        l.map.len() == total
    }

    pub fn region_of<K: std::hash::Hash + Eq + Clone>(l: &Lru<K>, k: &K) -> Option<Region> {
        l.map.get(k).map(|(_, r)| *r)
    }
    pub fn tracked<K: std::hash::Hash + Eq + Clone>(l: &Lru<K>) -> usize { l.map.len() }
}
