// driver placeholder
