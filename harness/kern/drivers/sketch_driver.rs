/// Driver: the private counter table of `Sketch`.
pub mod verif {
    use super::*;
    pub fn table_len(s: &Sketch) -> usize { s.cms.table.len() }
    pub fn table_word(s: &Sketch, i: usize) -> u64 { s.cms.table[i] }
    pub fn set_table_word(s: &mut Sketch, i: usize, w: u64) { s.cms.table[i] = w; }
    pub fn bitmap_len(s: &Sketch) -> usize { s.bloom_filter.bitmap.len() }
    pub fn cms_increment(s: &mut Sketch, h: u64) { s.cms.increment(h); }
    pub fn cms_estimate(s: &Sketch, h: u64) -> u8 { s.cms.estimate(h) }
    pub fn cms_reset(s: &mut Sketch) { s.cms.reset(); }
    pub fn additions(s: &Sketch) -> usize { s.additions }
}
