/// Driver for the private items above.
pub mod verif {
    use super::*;
    pub fn new_log<V: Eq + Hash + Clone>() -> ConcurrentLog<V> { ConcurrentLog::new() }
    pub fn op_insert<V>(v: V) -> Operation<V> { Operation::Insert(v) }
    pub fn op_remove<V>(v: V) -> Operation<V> { Operation::Remove(v) }
    pub fn snapshot<V: Eq + Hash + Clone>(log: &ConcurrentLog<V>) -> StagingShapshot<V> { log.get_snapshot() }
    pub fn staged_len<V: Eq + Hash + Clone>(log: &ConcurrentLog<V>) -> usize { log.log.read().len() }
    /// the dispatch `KeyOfSetMap::get` performs on a cache miss once `fetch_entry` returned
    pub fn entry_is_in_memory<C: Clone>(e: &Arc<RwLock<Entry<C>>>) -> Option<C> {
        match e.read().clone() { Entry::InMemory(set) => Some(set), Entry::TooLarge => None }
    }
    pub fn streaming<C: ConcurrentSet<Element = E> + 'static, I: Iterator<Item = E>, E: Eq + Hash + Send + Sync + 'static>(
        db_iter: I,
        snapshot: StagingShapshot<E>,
    ) -> MergeIterator<C, I, E, std::iter::Empty<E>> {
        MergeIterator::Streaming(db_iter, snapshot.into_iter_snapshot())
    }
}
