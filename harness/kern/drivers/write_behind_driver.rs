/// Driver for the committer's reorder buffer: feeds the *same* functions `commit_worker` calls
/// (`BinaryHeap<WriteTask>` + `process_pending_commits` + `CurrentBatch::flush`) in the same loop
/// shape, from a slice instead of from the crossbeam channel (whose thread-local `Context` cannot
/// be compiled by Kani).  `crossbeam_channel::Sender::send` is stubbed by the harness.
pub mod verif {
    use super::*;

    pub fn drive_reorder_buffer<Db: KvDatabase, const N: usize>(
        db: &Db,
        arrivals: [(u64, Db::SerializationBuffer); N],
        shutting_down: bool,
    ) {
        let (after_commit_sender, after_commit_receiver) =
            crossbeam_channel::unbounded::<AfterCommitTask<Db>>();
        let shutting_down = Arc::new(AtomicBool::new(shutting_down));

        // ---- from here: the body of `commit_worker`, `receiver.recv()` replaced by the slice ----
        let mut holdback_queues = BinaryHeap::new();

        let mut current_batch = CurrentBatch {
            processed_logical_batch: Default::default(),
            db_write_batch: db.write_batch(),
            expected_epoch: Epoch(0),
        };

        for (epoch, serialize_buffer) in arrivals {
            let task = WriteTask {
                write_buffer: WriteBatch::new(Epoch(epoch), true),
                serialize_buffer,
            };
            holdback_queues.push(task);

            WriteBehind::<Db>::process_pending_commits(
                &mut holdback_queues,
                &mut current_batch,
                &after_commit_sender,
                &shutting_down,
                db,
            );
        }

        WriteBehind::<Db>::process_pending_commits(
            &mut holdback_queues,
            &mut current_batch,
            &after_commit_sender,
            &shutting_down,
            db,
        );

        current_batch.flush(db, &after_commit_sender, &shutting_down);

        assert!(holdback_queues.is_empty());
        // ---- end of `commit_worker` body ----

        std::mem::forget(shutting_down);
        std::mem::forget(after_commit_sender);
        std::mem::forget(after_commit_receiver);
        std::mem::forget(current_batch);
        std::mem::forget(holdback_queues);
    }

    /// `Ord for WriteTask` on its own: smaller epoch = greater (min-heap through a max-heap)
    pub fn write_task_cmp<Db: KvDatabase>(
        a: (u64, Db::SerializationBuffer),
        b: (u64, Db::SerializationBuffer),
    ) -> std::cmp::Ordering {
        let ta = WriteTask::<Db> { write_buffer: WriteBatch::new(Epoch(a.0), false), serialize_buffer: a.1 };
        let tb = WriteTask::<Db> { write_buffer: WriteBatch::new(Epoch(b.0), false), serialize_buffer: b.1 };
        let r = ta.cmp(&tb);
        std::mem::forget((ta, tb));
        r
    }
}
