/// Driver for the committer's reorder buffer: runs the body of `commit_worker` itself (see
/// `commit_worker_driven`, generated from the file's own text) on an array of arrivals instead of the
/// crossbeam channel (whose thread-local `Context` cannot be compiled by Kani).
/// `crossbeam_channel::Sender::send` is stubbed by the harness.
pub mod verif {
    use super::*;

    pub fn drive_reorder_buffer<Db: KvDatabase, const N: usize>(
        db: &Db,
        arrivals: [(u64, Db::SerializationBuffer); N],
        shutting_down: bool,
    ) -> usize {
        let (after_commit_sender, after_commit_receiver) =
            crossbeam_channel::unbounded::<AfterCommitTask<Db>>();
        let shutting_down = Arc::new(AtomicBool::new(shutting_down));

        let mut tasks: [Option<WriteTask<Db>>; N] = [const { None }; N];
        let mut i = 0;
        for (epoch, serialize_buffer) in arrivals {
            tasks[i] = Some(WriteTask { write_buffer: WriteBatch::new(Epoch(epoch), true), serialize_buffer });
            i += 1;
        }
        let tasks: [WriteTask<Db>; N] = tasks.map(|t| t.unwrap());
        // the real body of `commit_worker`, receiving from the array instead of the channel
        WriteBehind::<Db>::commit_worker_driven(tasks, after_commit_sender, &shutting_down, db);
        // ---- end of `commit_worker` body ----

        std::mem::forget(shutting_down);
        // notifications that really went through the channel (native replay: the Kani stub of
        // `Sender::send` is not applied there; under Kani the stub counts them and this is 0)
        let delivered = after_commit_receiver.len();
        std::mem::forget(after_commit_receiver);
        delivered
    }

    /// `Ord for WriteTask` on its own: smaller epoch = greater (min-heap through a max-heap)
    pub fn write_task_cmp<Db: KvDatabase>(
        a: (u64, Db::SerializationBuffer),
        b: (u64, Db::SerializationBuffer),
    ) -> std::cmp::Ordering {
        let ta = WriteTask::<Db> { write_buffer: WriteBatch::new(Epoch(a.0), false), serialize_buffer: a.1 };
        let tb = WriteTask::<Db> { write_buffer: WriteBatch::new(Epoch(b.0), false), serialize_buffer: b.1 };
        let r = ta.cmp(&tb);
        std::mem::forget((ta, tb));
        r
    }
}
