#![allow(forgetting_copy_types, dead_code, unused_imports, unused_variables, unused_mut, clippy::all)]
pub mod common;
pub mod types;
#[cfg(kani)]
mod c12;
#[cfg(all(kani, feature = "feat"))]
mod c12f;
#[cfg(kani)]
mod c13;
#[cfg(kani)]
mod c14;
