#![allow(dead_code, unused_imports, clippy::all)]
pub mod common;
#[cfg(kani)]
mod c12;
