//! Shared pieces: standing stubs and the round-trip driver.
use qbice_serialize::{Decode, Decoder, Encode, Encoder, Plugin, PostcardDecoder, PostcardEncoder};

/// Stub for `std::hash::RandomState::new` (OS randomness -> constant keys).
pub fn rs_stub() -> std::hash::RandomState {
    unsafe { std::mem::transmute::<[u64; 2], std::hash::RandomState>([1, 2]) }
}

/// Stub for `alloc::fmt::format` (error message text is never inspected).
pub fn fmt_stub(_args: std::fmt::Arguments<'_>) -> String { String::new() }

/// Encode `v` with the real encoder through the public entry point.
pub fn enc<T: Encode>(v: &T, plugin: &Plugin) -> Vec<u8> {
    let mut e = PostcardEncoder::new(Vec::new());
    if e.encode(v, plugin).is_err() {
        panic!("encode returned an error");
    }
    e.into_inner()
}

/// encode -> append sentinel -> decode; returns (decoded, bytes left, encoded length)
pub fn rt<T: Encode + Decode>(v: &T, sentinel: u8) -> (T, usize, usize) {
    let plugin = Plugin::new();
    let mut bytes = enc(v, &plugin);
    let n = bytes.len();
    bytes.push(sentinel);
    let mut d = PostcardDecoder::new(&bytes[..]);
    let out: T = match d.decode(&plugin) {
        Ok(v) => v,
        Err(e) => {
            std::mem::forget(e);
            panic!("decode returned an error on the encoder's own output");
        }
    };
    let rest = d.into_inner();
    let left = rest.len();
    if left == 1 {
        assert!(rest[0] == sentinel);
    }
    (out, left, n)
}

/// Stub for `String::from_utf8` in the string-carrying harnesses: accepts the bytes unchecked.
/// Symbolic execution of std's UTF-8 validator on symbolic bytes exhausts memory (24 GB); the stub
/// removes only the *rejection* path of the decoder: the decoded bytes are still compared with the
/// original string, so any corruption of content or length is still a failed assertion.
pub fn from_utf8_stub(v: Vec<u8>) -> Result<String, std::string::FromUtf8Error> {
    Ok(unsafe { String::from_utf8_unchecked(v) })
}

/// Same for `core::str::from_utf8` (used by `Path::to_str`).
pub fn str_from_utf8_stub(v: &[u8]) -> Result<&str, std::str::Utf8Error> {
    Ok(unsafe { std::str::from_utf8_unchecked(v) })
}
