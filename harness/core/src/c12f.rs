//! C12 with the optional `smallvec` / `bitvec` features of qbice_serialize (unit `feat`).
use crate::common::*;
use bitvec::prelude::*;
use smallvec::SmallVec;

macro_rules! h {
    ($name:ident, $unw:expr, $body:block) => {
        #[kani::proof]
        #[kani::unwind($unw)]
        #[kani::stub(std::hash::RandomState::new, rs_stub)]
        #[kani::stub(alloc::fmt::format, fmt_stub)]
        fn $name() $body
    };
}

macro_rules! bitvec_rt {
    ($name:ident, $t:ty, $o:ty, $bits:expr, $unw:expr) => {
        h!($name, $unw, {
            let src: [bool; $bits] = kani::any();
            let mut v: BitVec<$t, $o> = BitVec::new();
            let mut i = 0;
            while i < $bits { v.push(src[i]); i += 1; }
            let s: u8 = kani::any();
            let (o, left, _n) = rt(&v, s);
            assert!(o.len() == $bits, "bit length preserved");
            i = 0;
            while i < $bits { assert!(o[i] == src[i], "every bit preserved"); i += 1; }
            assert!(left == 1, "decoder consumed exactly the encoded bytes");
            kani::cover!($bits == 0 || src[$bits.max(1) - 1], "last bit set");
            std::mem::forget((v, o));
        });
    };
}
bitvec_rt!(c12f_q_bitvec_u8_lsb0_9, u8, Lsb0, 9, 12);
bitvec_rt!(c12f_q_bitvec_u32_msb0_9, u32, Msb0, 9, 12);
bitvec_rt!(c12f_q_bitvec_usize_lsb0_9, usize, Lsb0, 9, 14);
bitvec_rt!(c12f_t_bitvec_u8_msb0_17, u8, Msb0, 17, 20);
bitvec_rt!(c12f_t_bitvec_u16_lsb0_17, u16, Lsb0, 17, 20);
bitvec_rt!(c12f_q_bitvec_u16_lsb0_0, u16, Lsb0, 0, 6);

macro_rules! smallvec_rt {
    ($name:ident, $len:expr) => {
        h!($name, 8, {
            let a: [u16; $len] = kani::any();
            let v: SmallVec<[u16; 2]> = a.iter().copied().collect();
            let s: u8 = kani::any();
            let (o, left, n) = rt(&v, s);
            assert!(o.len() == $len, "length preserved");
            let mut i = 0;
            while i < $len { assert!(o[i] == a[i], "element preserved"); i += 1; }
            assert!(left == 1, "decoder consumed exactly the encoded bytes");
            kani::cover!(n == 1 + 3 * $len, "every element needs 3 bytes");
            kani::cover!(o.spilled() == ($len > 2), "inline below the inline capacity, spilled above");
            std::mem::forget((v, o));
        });
    };
}
smallvec_rt!(c12f_q_smallvec_0, 0);
smallvec_rt!(c12f_q_smallvec_2, 2);
smallvec_rt!(c12f_q_smallvec_3, 3);

include!("gen/playback_c12f.rs");
