//! C12 — serialization round trips through the real encoder/decoder.
//!
//! name scheme: c12_<tier>_<family>_<instance>; tier q = quick+thorough, t = thorough only,
//! x / xq = deliberately wrong twins that the solver must refute.
use crate::common::*;
use qbice_serialize::{Decode, Encode};
use std::collections::{BTreeMap, BTreeSet, HashMap, HashSet, LinkedList, VecDeque};
use std::rc::Rc;
use std::sync::Arc;

/// every harness: Kani proof + standing stubs
macro_rules! h {
    ($name:ident, $unw:expr, $body:block) => {
        #[kani::proof]
        #[kani::unwind($unw)]
        #[kani::stub(std::hash::RandomState::new, rs_stub)]
        #[kani::stub(alloc::fmt::format, fmt_stub)]
        fn $name() $body
    };
}

/// round trip of a `PartialEq` value: equal, exactly the sentinel left. Returns encoded length.
fn check<T: Encode + Decode + PartialEq>(v: &T) -> usize {
    let s: u8 = kani::any();
    let (o, left, n) = rt(v, s);
    assert!(o == *v, "decode(encode(v)) == v");
    assert!(left == 1, "decoder consumed exactly the encoded bytes");
    std::mem::forget(o);
    n
}

// ------------------------------------------------------------------------------------------
// integers and scalar types: full range symbolic

macro_rules! int_rt {
    ($name:ident, $t:ty, $maxlen:expr) => {
        h!($name, $maxlen + 2, {
            let v: $t = kani::any();
            let n = check(&v);
            kani::cover!(n == $maxlen, "maximal encoding length reached");
            kani::cover!(n == 1 || $maxlen > 1 && n == 2, "short encoding reached");
        });
    };
}
int_rt!(c12_q_int_u8, u8, 1);
int_rt!(c12_q_int_i8, i8, 1);
int_rt!(c12_q_int_bool, bool, 1);
int_rt!(c12_q_int_u16, u16, 3);
int_rt!(c12_q_int_i16, i16, 3);
int_rt!(c12_q_int_u32, u32, 5);
int_rt!(c12_q_int_i32, i32, 5);
int_rt!(c12_q_int_u64, u64, 10);
int_rt!(c12_q_int_i64, i64, 10);
int_rt!(c12_q_int_usize, usize, 10);
int_rt!(c12_q_int_isize, isize, 10);
int_rt!(c12_q_int_u128, u128, 19);
int_rt!(c12_q_int_i128, i128, 19);
int_rt!(c12_q_int_char, char, 3);

h!(c12_q_int_f32, 6, {
    let v: f32 = kani::any();
    let s: u8 = kani::any();
    let (o, left, n) = rt(&v, s);
    assert!(o.to_bits() == v.to_bits(), "f32 bits preserved (incl. NaN payloads, -0.0)");
    assert!(left == 1 && n == 4);
    kani::cover!(v.is_nan(), "NaN input");
    kani::cover!(v == 0.0 && v.is_sign_negative(), "negative zero");
});
h!(c12_q_int_f64, 10, {
    let v: f64 = kani::any();
    let s: u8 = kani::any();
    let (o, left, n) = rt(&v, s);
    assert!(o.to_bits() == v.to_bits(), "f64 bits preserved");
    assert!(left == 1 && n == 8);
    kani::cover!(v.is_nan(), "NaN input");
    kani::cover!(v.is_infinite(), "infinite input");
});

macro_rules! nz_rt {
    ($name:ident, $t:ty, $maxlen:expr) => {
        h!($name, $maxlen + 2, {
            let v: $t = kani::any();
            let n = check(&v);
            kani::cover!(n == $maxlen, "maximal encoding length reached");
        });
    };
}
nz_rt!(c12_q_nz_u8, std::num::NonZeroU8, 1);
nz_rt!(c12_q_nz_i8, std::num::NonZeroI8, 1);
nz_rt!(c12_q_nz_u16, std::num::NonZeroU16, 3);
nz_rt!(c12_q_nz_i16, std::num::NonZeroI16, 3);
nz_rt!(c12_t_nz_u32, std::num::NonZeroU32, 5);
nz_rt!(c12_t_nz_i32, std::num::NonZeroI32, 5);
nz_rt!(c12_t_nz_u64, std::num::NonZeroU64, 10);
nz_rt!(c12_q_nz_i64, std::num::NonZeroI64, 10);
nz_rt!(c12_t_nz_usize, std::num::NonZeroUsize, 10);
nz_rt!(c12_t_nz_isize, std::num::NonZeroIsize, 10);
nz_rt!(c12_t_nz_u128, std::num::NonZeroU128, 19);
nz_rt!(c12_t_nz_i128, std::num::NonZeroI128, 19);

macro_rules! atomic_rt {
    ($name:ident, $at:ty, $inner:ty, $maxlen:expr) => {
        h!($name, $maxlen + 2, {
            use std::sync::atomic::Ordering::Relaxed;
            let x: $inner = kani::any();
            let v = <$at>::new(x);
            let s: u8 = kani::any();
            let (o, left, n) = rt(&v, s);
            assert!(o.load(Relaxed) == x, "atomic value preserved");
            assert!(left == 1);
            kani::cover!(n == $maxlen, "maximal encoding length reached");
        });
    };
}
atomic_rt!(c12_t_atomic_bool, std::sync::atomic::AtomicBool, bool, 1);
atomic_rt!(c12_t_atomic_i8, std::sync::atomic::AtomicI8, i8, 1);
atomic_rt!(c12_t_atomic_u8, std::sync::atomic::AtomicU8, u8, 1);
atomic_rt!(c12_t_atomic_i16, std::sync::atomic::AtomicI16, i16, 3);
atomic_rt!(c12_q_atomic_u16, std::sync::atomic::AtomicU16, u16, 3);
atomic_rt!(c12_t_atomic_i32, std::sync::atomic::AtomicI32, i32, 5);
atomic_rt!(c12_t_atomic_u32, std::sync::atomic::AtomicU32, u32, 5);
atomic_rt!(c12_q_atomic_i64, std::sync::atomic::AtomicI64, i64, 10);
atomic_rt!(c12_t_atomic_u64, std::sync::atomic::AtomicU64, u64, 10);
atomic_rt!(c12_t_atomic_isize, std::sync::atomic::AtomicIsize, isize, 10);
atomic_rt!(c12_t_atomic_usize, std::sync::atomic::AtomicUsize, usize, 10);

// wrappers around a symbolic integer
macro_rules! val_rt {
    ($name:ident, $unw:expr, $ty:ty, $mk:expr $(, $cov:expr, $covmsg:expr)?) => {
        h!($name, $unw, {
            let v: $ty = $mk;
            let _n = check(&v);
            $( kani::cover!(($cov)(&v, _n), $covmsg); )?
            std::mem::forget(v);
        });
    };
}
val_rt!(c12_q_wrap_wrapping_i32, 7, std::num::Wrapping<i32>, std::num::Wrapping(kani::any()), |_v, n| n == 5, "5-byte varint");
val_rt!(c12_q_wrap_reverse_u64, 12, std::cmp::Reverse<u64>, std::cmp::Reverse(kani::any()), |_v, n| n == 10, "10-byte varint");
val_rt!(c12_q_wrap_cell_u16, 5, std::cell::Cell<u16>, std::cell::Cell::new(kani::any()), |_v, n| n == 3, "3-byte varint");
val_rt!(c12_q_wrap_refcell_i16, 5, std::cell::RefCell<i16>, std::cell::RefCell::new(kani::any()), |_v, n| n == 3, "3-byte varint");
val_rt!(c12_q_wrap_box_u32, 7, Box<u32>, Box::new(kani::any()), |_v, n| n == 5, "5-byte varint");
val_rt!(c12_q_wrap_rc_i64, 12, Rc<i64>, Rc::new(kani::any()), |_v, n| n == 10, "10-byte varint");
val_rt!(c12_q_wrap_arc_u16, 5, Arc<u16>, Arc::new(kani::any()), |_v, n| n == 3, "3-byte varint");
val_rt!(c12_q_wrap_cow_u16, 5, std::borrow::Cow<'static, u16>, std::borrow::Cow::Owned(kani::any()), |_v, n| n == 3, "3-byte varint");
val_rt!(c12_q_wrap_phantom, 3, std::marker::PhantomData<u64>, std::marker::PhantomData, |_v, n| n == 0, "zero bytes");
val_rt!(c12_q_wrap_unit, 3, (), (), |_v, n| n == 0, "zero bytes");
val_rt!(c12_q_wrap_rangefull, 3, std::ops::RangeFull, .., |_v, n| n == 0, "zero bytes");

h!(c12_q_wrap_duration, 12, {
    let secs: u64 = kani::any();
    let nanos: u32 = kani::any();
    kani::assume(nanos < 1_000_000_000);
    let v = std::time::Duration::new(secs, nanos);
    let n = check(&v);
    kani::cover!(n == 15, "10-byte secs and 5-byte nanos");
    kani::cover!(n == 2, "two one-byte fields");
});

// ------------------------------------------------------------------------------------------
// sums

val_rt!(c12_q_sum_option_u16, 5, Option<u16>, kani::any(), |v: &Option<u16>, n| v.is_some() && n == 4, "Some with 3-byte payload");
val_rt!(c12_q_sum_option_option_u8, 3, Option<Option<u8>>, kani::any(), |v: &Option<Option<u8>>, _n| *v == Some(None), "Some(None)");
val_rt!(c12_q_sum_result_u32_i16, 7, Result<u32, i16>, kani::any(), |v: &Result<u32, i16>, n| v.is_err() && n == 4, "Err with 3-byte payload");
val_rt!(c12_q_sum_result_unit_u8, 3, Result<(), u8>, kani::any(), |v: &Result<(), u8>, _n| v.is_ok(), "Ok(())");
h!(c12_q_sum_bound_u16, 5, {
    let tag: u8 = kani::any();
    let x: u16 = kani::any();
    let v = match tag % 3 { 0 => std::ops::Bound::Unbounded, 1 => std::ops::Bound::Included(x), _ => std::ops::Bound::Excluded(x) };
    let n = check(&v);
    kani::cover!(matches!(v, std::ops::Bound::Excluded(_)) && n == 4, "Excluded, 3-byte payload");
    kani::cover!(matches!(v, std::ops::Bound::Unbounded), "Unbounded");
    kani::cover!(matches!(v, std::ops::Bound::Included(_)), "Included");
});
val_rt!(c12_q_sum_range_u16, 5, std::ops::Range<u16>, kani::any::<u16>()..kani::any::<u16>(), |v: &std::ops::Range<u16>, _n| v.start > v.end, "empty (reversed) range");
val_rt!(c12_q_sum_rangeincl_i16, 5, std::ops::RangeInclusive<i16>, kani::any::<i16>()..=kani::any::<i16>(), |_v, n| n == 6, "both bounds 3 bytes");
val_rt!(c12_t_sum_rangefrom_u32, 7, std::ops::RangeFrom<u32>, kani::any::<u32>().., |_v, n| n == 5, "5 bytes");
val_rt!(c12_t_sum_rangeto_u32, 7, std::ops::RangeTo<u32>, ..kani::any::<u32>(), |_v, n| n == 5, "5 bytes");
val_rt!(c12_t_sum_rangetoincl_u32, 7, std::ops::RangeToInclusive<u32>, ..=kani::any::<u32>(), |_v, n| n == 5, "5 bytes");

// tuples
val_rt!(c12_q_tuple_1, 5, (u16,), (kani::any(),), |_v, n| n == 3, "3 bytes");
val_rt!(c12_q_tuple_2, 7, (u16, i32), (kani::any(), kani::any()), |_v, n| n == 8, "3+5 bytes");
val_rt!(c12_q_tuple_3, 7, (u8, Option<u16>, bool), (kani::any(), kani::any(), kani::any()), |_v, n| n == 6, "1+4+1 bytes");
val_rt!(c12_t_tuple_4, 7, (i8, u16, i32, char), (kani::any(), kani::any(), kani::any(), kani::any()), |_v, n| n == 12, "1+3+5+3 bytes");
val_rt!(c12_t_tuple_12, 5, (u8, i8, u8, i8, u8, i8, u8, i8, u8, i8, u8, bool),
    (kani::any(), kani::any(), kani::any(), kani::any(), kani::any(), kani::any(), kani::any(), kani::any(), kani::any(), kani::any(), kani::any(), kani::any()),
    |_v, n| n == 12, "twelve one-byte fields");
val_rt!(c12_q_tuple_nested, 5, ((u8, u16), (u16, u8)), ((kani::any(), kani::any()), (kani::any(), kani::any())), |_v, n| n == 8, "maximal");

// arrays
val_rt!(c12_q_array_0, 3, [u16; 0], [], |_v, n| n == 0, "zero bytes");
val_rt!(c12_q_array_1, 5, [u16; 1], kani::any(), |_v, n| n == 3, "max");
val_rt!(c12_q_array_2, 5, [i16; 2], kani::any(), |_v, n| n == 6, "max");
val_rt!(c12_q_array_3, 7, [u16; 3], kani::any(), |_v, n| n == 9, "max");
val_rt!(c12_t_array_3_opt, 7, [Option<u8>; 3], kani::any(), |_v, n| n == 6, "all Some");

// ------------------------------------------------------------------------------------------
// sequences: concrete length, symbolic elements

fn vec_u16<const L: usize>() -> Vec<u16> {
    let a: [u16; L] = kani::any();
    a.to_vec()
}

macro_rules! seq_rt {
    ($name:ident, $ty:ty, $len:expr, $conv:expr) => {
        h!($name, 8, {
            let base = vec_u16::<$len>();
            let v: $ty = ($conv)(base);
            let n = check(&v);
            kani::cover!(n == 1 + 3 * $len, "every element needs 3 bytes");
            std::mem::forget(v);
        });
    };
}
seq_rt!(c12_q_seq_vec_0, Vec<u16>, 0, |b: Vec<u16>| b);
seq_rt!(c12_t_seq_vec_1, Vec<u16>, 1, |b: Vec<u16>| b);
seq_rt!(c12_q_seq_vec_2, Vec<u16>, 2, |b: Vec<u16>| b);
seq_rt!(c12_t_seq_vec_3, Vec<u16>, 3, |b: Vec<u16>| b);
seq_rt!(c12_q_seq_vecdeque_0, VecDeque<u16>, 0, |b: Vec<u16>| b.into_iter().collect());
seq_rt!(c12_q_seq_linkedlist_0, LinkedList<u16>, 0, |b: Vec<u16>| b.into_iter().collect());
seq_rt!(c12_q_seq_linkedlist_1, LinkedList<u16>, 1, |b: Vec<u16>| b.into_iter().collect());
seq_rt!(c12_t_seq_linkedlist_2, LinkedList<u16>, 2, |b: Vec<u16>| b.into_iter().collect());
seq_rt!(c12_t_seq_linkedlist_3, LinkedList<u16>, 3, |b: Vec<u16>| b.into_iter().collect());
seq_rt!(c12_q_seq_boxslice_0, Box<[u16]>, 0, |b: Vec<u16>| b.into_boxed_slice());
seq_rt!(c12_t_seq_boxslice_2, Box<[u16]>, 2, |b: Vec<u16>| b.into_boxed_slice());
seq_rt!(c12_t_seq_boxslice_3, Box<[u16]>, 3, |b: Vec<u16>| b.into_boxed_slice());
seq_rt!(c12_t_seq_arcslice_2, Arc<[u16]>, 2, |b: Vec<u16>| Arc::from(b));
seq_rt!(c12_t_seq_arcslice_0, Arc<[u16]>, 0, |b: Vec<u16>| Arc::from(b));
seq_rt!(c12_t_seq_rcslice_2, Rc<[u16]>, 2, |b: Vec<u16>| Rc::from(b));
seq_rt!(c12_t_seq_cowslice_2, std::borrow::Cow<'static, [u16]>, 2, |b: Vec<u16>| std::borrow::Cow::Owned(b));

// VecDeque whose ring buffer is wrapped (head in the middle): history must not matter
// the same with one-byte elements (no varint loops): cheap enough for the quick tier
h!(c12_q_seq_vecdeque_wrapped_u8, 8, {
    let a: [u8; 3] = kani::any();
    let mut v: VecDeque<u8> = VecDeque::with_capacity(4);
    v.push_back(0); v.push_back(0); v.push_back(a[0]);
    v.pop_front(); v.pop_front();
    v.push_back(a[1]); v.push_back(a[2]);
    let s: u8 = kani::any();
    let (o, left, n) = rt(&v, s);
    assert!(o.len() == 3 && o[0] == a[0] && o[1] == a[1] && o[2] == a[2], "all elements of a wrapped ring buffer round trip, in order");
    assert!(left == 1 && n == 4, "length prefix + 3 bytes, exactly consumed");
    kani::cover!(v.as_slices().1.len() > 0, "ring buffer is wrapped");
    std::mem::forget((v, o));
});
h!(c12_q_seq_vecdeque_push_front_u8, 8, {
    let a: [u8; 3] = kani::any();
    let mut v: VecDeque<u8> = VecDeque::from(vec![a[1], a[2]]);
    v.push_front(a[0]);
    let s: u8 = kani::any();
    let (o, left, _n) = rt(&v, s);
    assert!(o.len() == 3 && o[0] == a[0] && o[1] == a[1] && o[2] == a[2], "push_front history round trips");
    assert!(left == 1);
    kani::cover!(a[0] != a[1], "distinct elements");
    std::mem::forget((v, o));
});

// strings: symbolic ASCII bytes plus fixed multi-byte code points
fn ascii_string<const L: usize>() -> String {
    let a: [u8; L] = kani::any();
    let mut i = 0;
    while i < L {
        kani::assume(a[i] < 0x80);
        i += 1;
    }
    // valid by the assumption above (ASCII); avoids symbolic execution of the UTF-8 encoder
    unsafe { String::from_utf8_unchecked(a.to_vec()) }
}
/// string harnesses: additionally stub the UTF-8 validator (see common::from_utf8_stub)
macro_rules! hs {
    ($name:ident, $unw:expr, $body:block) => {
        #[kani::proof]
        #[kani::unwind($unw)]
        #[kani::stub(std::hash::RandomState::new, rs_stub)]
        #[kani::stub(alloc::fmt::format, fmt_stub)]
        #[kani::stub(std::string::String::from_utf8, from_utf8_stub)]
        #[kani::stub(std::str::from_utf8, str_from_utf8_stub)]
        fn $name() $body
    };
}
macro_rules! str_rt {
    ($name:ident, $ty:ty, $len:expr, $conv:expr) => {
        hs!($name, 10, {
            let v: $ty = ($conv)(ascii_string::<$len>());
            let n = check(&v);
            kani::cover!(n == 1 + $len, "length prefix + bytes");
            std::mem::forget(v);
        });
    };
}
str_rt!(c12_q_str_string_0, String, 0, |s: String| s);
str_rt!(c12_q_str_string_1, String, 1, |s: String| s);
str_rt!(c12_t_str_string_2, String, 2, |s: String| s);
str_rt!(c12_t_str_string_3, String, 3, |s: String| s);
str_rt!(c12_q_str_boxstr_1, Box<str>, 1, |s: String| s.into_boxed_str());
str_rt!(c12_q_str_arcstr_1, Arc<str>, 1, |s: String| Arc::from(s));
str_rt!(c12_t_str_boxstr_2, Box<str>, 2, |s: String| s.into_boxed_str());
str_rt!(c12_t_str_arcstr_2, Arc<str>, 2, |s: String| Arc::from(s));
str_rt!(c12_t_str_rcstr_2, Rc<str>, 2, |s: String| Rc::from(s));
str_rt!(c12_t_str_cowstr_2, std::borrow::Cow<'static, str>, 2, |s: String| std::borrow::Cow::Owned(s));

// paths: compared by their encoded bytes (`PathBuf == PathBuf` parses components, which is out of
// reach for symbolic bytes)
macro_rules! path_rt {
    ($name:ident, $ty:ty, $len:expr, $conv:expr) => {
        hs!($name, 10, {
            let v: $ty = ($conv)(ascii_string::<$len>());
            let s: u8 = kani::any();
            let (o, left, n) = rt(&v, s);
            let (a, b) = (o.as_os_str().as_encoded_bytes(), v.as_os_str().as_encoded_bytes());
            assert!(a.len() == b.len(), "path length preserved");
            let mut i = 0;
            while i < $len { assert!(a[i] == b[i], "path bytes preserved"); i += 1; }
            assert!(left == 1, "decoder consumed exactly the encoded bytes");
            kani::cover!(n == 1 + $len, "length prefix + bytes");
            std::mem::forget((o, v));
        });
    };
}
path_rt!(c12_q_path_pathbuf_1, std::path::PathBuf, 1, |s: String| std::path::PathBuf::from(s));
path_rt!(c12_t_path_pathbuf_2, std::path::PathBuf, 2, |s: String| std::path::PathBuf::from(s));
path_rt!(c12_t_path_arcpath_2, Arc<std::path::Path>, 2, |s: String| Arc::from(std::path::PathBuf::from(s).as_path()));
path_rt!(c12_t_path_boxpath_1, Box<std::path::Path>, 1, |s: String| std::path::PathBuf::from(s).into_boxed_path());

// one symbolic scalar value as a string (all 1..4 byte UTF-8 encodings)
// ordered maps/sets: BTreeMap / BTreeSet harnesses (symbolic and concrete keys) were tried and removed:
// no answer within 30 minutes (node search on values that passed through the decoder's heap buffer)
h!(c12_q_seq_btreeset_0, 6, {
    let v: BTreeSet<u16> = BTreeSet::new();
    let n = check(&v);
    kani::cover!(n == 1, "only the length prefix");
});
// ------------------------------------------------------------------------------------------
// derive output

use crate::types::*;

h!(c12_q_derive_unit, 12, { let n = check(&Unit); kani::cover!(n == 0, "zero bytes"); });
h!(c12_q_derive_tuple_struct, 12, { let v = Tup(kani::any(), kani::any()); let n = check(&v); kani::cover!(n == 8, "max"); });
h!(c12_q_derive_named_struct, 12, {
    let v = Named { a: kani::any(), b: kani::any(), c: kani::any() };
    let n = check(&v);
    kani::cover!(n == 8, "max");
    kani::cover!(v.b.is_none(), "None field");
});
h!(c12_q_derive_generic_struct, 12, {
    let v: Gen<u16, Gen<i32, bool>> = Gen { a: kani::any(), b: Gen { a: kani::any(), b: kani::any() } };
    let n = check(&v);
    kani::cover!(n == 9, "max");
});
h!(c12_q_derive_skip_struct, 12, {
    let v = Skip { a: kani::any(), cache: kani::any(), b: kani::any() };
    let s: u8 = kani::any();
    let (o, left, n) = rt(&v, s);
    assert!(o.a == v.a && o.b == v.b, "non-skipped fields preserved");
    assert!(o.cache == 0, "skipped field comes back as Default");
    assert!(left == 1);
    kani::cover!(n == 4 && v.cache != 0, "skipped field had a non-default value");
});
h!(c12_q_derive_skip_tuple, 12, {
    let v = SkipTup(kani::any(), kani::any(), kani::any());
    let s: u8 = kani::any();
    let (o, left, n) = rt(&v, s);
    assert!(o.0 == v.0 && o.2 == v.2 && o.1 == 0, "non-skipped preserved, skipped default");
    assert!(left == 1);
    kani::cover!(n == 4 && v.1 != 0, "skipped field had a non-default value");
});
h!(c12_q_derive_enum, 12, {
    let v = any_en();
    let n = check(&v);
    kani::cover!(matches!(v, En::A), "unit variant");
    kani::cover!(matches!(v, En::B(..)) && n == 5, "tuple variant max");
    kani::cover!(matches!(v, En::C { y: Some(_), .. }), "named variant");
    kani::cover!(matches!(v, En::D(_)), "generic variant");
    kani::cover!(matches!(v, En::E { .. }), "variant with skipped field");
    kani::cover!(matches!(v, En::F), "last variant");
});
h!(c12_q_derive_enum_skip_default, 12, {
    let v: En<u8> = En::E { skipped: kani::any(), kept: kani::any() };
    let s: u8 = kani::any();
    let (o, left, _n) = rt(&v, s);
    match (o, v) {
        (En::E { skipped, kept }, En::E { kept: k0, skipped: s0 }) => {
            assert!(kept == k0 && skipped == 0, "kept preserved, skipped default");
            kani::cover!(s0 != 0, "skipped had a value");
        }
        _ => assert!(false, "variant changed"),
    }
    assert!(left == 1);
});

// ------------------------------------------------------------------------------------------
// nesting to depth 3 (five further nests - Option<Vec<tuple>>, Vec<Vec>, Vec<enum>, Result<(String,u8),Option<String>>,
// a three-value string/vec/enum stream - and the u16 wrapped VecDeque were tried and removed: unwinding bounds that
// cover them make CBMC time out)

h!(c12_t_nest_box_opt_arc, 8, {
    let some: bool = kani::any();
    let x: i32 = kani::any();
    let v: Box<Option<Arc<(i32, [u8; 2])>>> = Box::new(if some { Some(Arc::new((x, kani::any()))) } else { None });
    let n = check(&v);
    kani::cover!(n == 8, "Some maximal");
    std::mem::forget(v);
});
// ------------------------------------------------------------------------------------------
// back to back: self-delimiting encodings

h!(c12_t_b2b_three, 12, {
    use qbice_serialize::{Decoder, Encoder, Plugin, PostcardDecoder, PostcardEncoder};
    let a: u32 = kani::any();
    let b: i64 = kani::any();
    let c: Option<u16> = kani::any();
    let plugin = Plugin::new();
    let mut e = PostcardEncoder::new(Vec::new());
    let ok = e.encode(&a, &plugin).is_ok() && e.encode(&b, &plugin).is_ok() && e.encode(&c, &plugin).is_ok();
    assert!(ok, "encode ok");
    let bytes = e.into_inner();
    let mut d = PostcardDecoder::new(&bytes[..]);
    let a2: Option<u32> = d.decode(&plugin).ok();
    let b2: Option<i64> = d.decode(&plugin).ok();
    let c2: Option<Option<u16>> = d.decode(&plugin).ok();
    assert!(a2 == Some(a) && b2 == Some(b) && c2 == Some(c), "values read back in sequence");
    assert!(d.into_inner().is_empty(), "all bytes consumed");
    kani::cover!(bytes.len() == 5 + 10 + 4, "all maximal");
    kani::cover!(bytes.len() == 3, "all minimal");
});
// ------------------------------------------------------------------------------------------
// deliberately wrong twins (must be refuted by the solver)

h!(c12_xq_int_u16, 5, {
    let v: u16 = kani::any();
    let s: u8 = kani::any();
    let (o, _left, n) = rt(&v, s);
    assert!(n != 3 || o != v, "TWIN deliberately wrong: 3-byte encodings do not round trip");
});
h!(c12_x_seq_vec_2, 6, {
    let v = vec_u16::<2>();
    let s: u8 = kani::any();
    let (o, _left, _n) = rt(&v, s);
    assert!(o[0] != v[0] || o[1] != v[1] || v[0] <= v[1], "TWIN deliberately wrong");
});
h!(c12_x_derive_enum, 12, {
    let v = any_en();
    let s: u8 = kani::any();
    let (o, _left, _n) = rt(&v, s);
    assert!(!(o == v && matches!(v, En::E { .. })), "TWIN deliberately wrong");
});

include!("gen/playback_c12.rs");
