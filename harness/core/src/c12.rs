//! C12 — serialization round trips through the real encoder/decoder.
use crate::common::*;
use qbice_serialize::{Decode, Encode};

/// every harness: Kani proof + standing stubs
macro_rules! h {
    ($name:ident, $unw:expr, $body:block) => {
        #[kani::proof]
        #[kani::unwind($unw)]
        #[kani::stub(std::hash::RandomState::new, rs_stub)]
        #[kani::stub(alloc::fmt::format, fmt_stub)]
        fn $name() $body
    };
}

/// round trip of a `PartialEq` value: equal, exactly the sentinel left.
fn check<T: Encode + Decode + PartialEq>(v: &T) -> usize {
    let s: u8 = kani::any();
    let (o, left, n) = rt(v, s);
    assert!(o == *v, "decode(encode(v)) == v");
    assert!(left == 1, "decoder consumed exactly the encoded bytes");
    n
}

macro_rules! int_rt {
    ($name:ident, $t:ty, $maxlen:expr) => {
        h!($name, $maxlen + 2, {
            let v: $t = kani::any();
            let n = check(&v);
            kani::cover!(n == $maxlen, "maximal encoding length reached");
            kani::cover!(n == 1, "one byte encoding reached");
        });
    };
}
int_rt!(c12_q_int_u16, u16, 3);
int_rt!(c12_q_int_u64, u64, 10);
int_rt!(c12_q_int_i32, i32, 5);

// deliberately wrong twin: claims 3-byte encodings do not round trip
h!(c12_xq_int_u16, 5, {
    let v: u16 = kani::any();
    let s: u8 = kani::any();
    let (o, _left, n) = rt(&v, s);
    assert!(n != 3 || o != v, "TWIN deliberately wrong");
});

include!("gen/playback_c12.rs");
