//! C14 — type identities: pairwise distinct over a constructor-closed universe, stable formula.
use crate::common::*;
use qbice_stable_type_id::{Identifiable, StableTypeID};

#[derive(Identifiable)]
#[stable_type_id_crate(qbice_stable_type_id)]
pub struct L1;
pub mod m1 {
    use qbice_stable_type_id::Identifiable;
    #[derive(Identifiable)]
    #[stable_type_id_crate(qbice_stable_type_id)]
    pub struct Same;
}
pub mod m2 {
    use qbice_stable_type_id::Identifiable;
    #[derive(Identifiable)]
    #[stable_type_id_crate(qbice_stable_type_id)]
    pub struct Same;
}
#[derive(Identifiable)]
#[stable_type_id_crate(qbice_stable_type_id)]
pub struct G1<T>(pub T);
#[derive(Identifiable)]
#[stable_type_id_crate(qbice_stable_type_id)]
pub struct H1<T>(pub T);
#[derive(Identifiable)]
#[stable_type_id_crate(qbice_stable_type_id)]
pub struct G2<A, B>(pub A, pub B);
#[derive(Identifiable)]
#[stable_type_id_crate(qbice_stable_type_id)]
pub struct H2<A, B>(pub A, pub B);

pub mod table {
    include!("gen/c14_table.rs");
}
use table::{N, NAMES, TABLE};

macro_rules! h {
    ($name:ident, $unw:expr, $body:block) => {
        #[kani::proof]
        #[kani::unwind($unw)]
        #[kani::stub(std::hash::RandomState::new, rs_stub)]
        #[kani::stub(alloc::fmt::format, fmt_stub)]
        fn $name() $body
    };
}

/// which two types collide is the solver's choice: symbolic index pair over the real consts
pub fn pair_distinct(i: usize, j: usize) {
    if TABLE[i] == TABLE[j] {
        #[cfg(not(kani))]
        eprintln!("STABLE_TYPE_ID collision: `{}` and `{}` = {:#034x}", NAMES[i], NAMES[j], TABLE[i]);
        panic!("two distinct types of the universe share a STABLE_TYPE_ID");
    }
}
h!(c14_q_universe_pairwise_distinct, 3, {
    let i: usize = kani::any();
    let j: usize = kani::any();
    kani::assume(i < j && j < N);
    pair_distinct(i, j);
    kani::cover!(i == 0 && j == N - 1, "first and last entry of the universe");
    kani::cover!(j == i + 1 && i > N / 2, "neighbouring entries in the deep part");
});

// id <-> parts
h!(c14_q_id_parts_roundtrip, 3, {
    let (hi, lo): (u64, u64) = (kani::any(), kani::any());
    let id = unsafe { StableTypeID::from_raw_parts(hi, lo) };
    assert!(id.high() == hi && id.low() == lo, "parts preserved");
    assert!(id.as_u128() == ((hi as u128) << 64 | lo as u128), "as_u128 is high:low");
    let (hi2, lo2): (u64, u64) = (kani::any(), kani::any());
    let id2 = unsafe { StableTypeID::from_raw_parts(hi2, lo2) };
    assert!((id == id2) == (hi == hi2 && lo == lo2), "equality iff both halves equal");
    assert!((id.as_u128() == id2.as_u128()) == (id == id2), "as_u128 injective");
    kani::cover!(hi != 0 && lo != 0, "both halves non-zero");
    // Compact128 (the representation persisted inside query ids)
    let u: u128 = kani::any();
    let c = qbice_stable_hash::Compact128::from(u);
    assert!(c.to_u128() == u, "Compact128 round trip");
    assert!(c.low() == u as u64 && c.high() == (u >> 64) as u64, "low/high consistent");
    let back = unsafe { StableTypeID::from_raw_parts(qbice_stable_hash::Compact128::from(id.as_u128()).high(), qbice_stable_hash::Compact128::from(id.as_u128()).low()) };
    assert!(back == id, "StableTypeID -> u128 -> Compact128 -> StableTypeID is the identity");
});

// the documented formula of the built-in and derived impls, recomputed during symbolic execution
// (guards against a divergence between the const-evaluated ids and the function a later process runs)
h!(c14_q_formula_recomputed, 40, {
    let u8id = StableTypeID::from_unique_type_name("u8");
    assert!(u8id == <u8 as Identifiable>::STABLE_TYPE_ID, "leaf");
    let vec = StableTypeID::from_unique_type_name("std::vec::Vec").combine(u8id);
    assert!(vec == <Vec<u8> as Identifiable>::STABLE_TYPE_ID, "Vec<u8>");
    let s = <String as Identifiable>::STABLE_TYPE_ID;
    let t2 = StableTypeID::from_unique_type_name("std::tuple::Tuple").combine(u8id).combine(s);
    assert!(t2 == <(u8, String) as Identifiable>::STABLE_TYPE_ID, "(u8, String): parameters in declaration order");
    let t2s = StableTypeID::from_unique_type_name("std::tuple::Tuple").combine(s).combine(u8id);
    assert!(t2s == <(String, u8) as Identifiable>::STABLE_TYPE_ID && t2s != t2, "swap differs");
    let arr = StableTypeID::from_unique_type_name("core::primitive::array").combine(u8id).combine(unsafe { StableTypeID::from_raw_parts(2, 0) });
    assert!(arr == <[u8; 2] as Identifiable>::STABLE_TYPE_ID, "[u8; 2] includes the length");
    let g2 = s.combine(u8id.combine(StableTypeID::from_unique_type_name("qv_core@0.0.0::qv_core::c14::G2")));
    assert!(g2 == <G2<u8, String> as Identifiable>::STABLE_TYPE_ID, "derived generic: name, then parameters in order");
    assert!(<m1::Same as Identifiable>::STABLE_TYPE_ID == StableTypeID::from_unique_type_name("qv_core@0.0.0::qv_core::c14::m1::Same"), "derived leaf = package@version::module::name");
    assert!(<m1::Same as Identifiable>::STABLE_TYPE_ID != <m2::Same as Identifiable>::STABLE_TYPE_ID, "same name, different module");
    kani::cover!(t2s != t2, "argument swap gives a different id");
});

// symbolic string input: the name hash reads every byte (tail and 8-byte chunk paths)
h!(c14_t_name_hash_reads_all_bytes, 20, {
    let a: [u8; 9] = kani::any();
    let k: usize = kani::any();
    kani::assume(k < 9);
    let mut b = a;
    let d: u8 = kani::any();
    kani::assume(d != 0);
    b[k] ^= d;
    let mut i = 0;
    while i < 9 { kani::assume(a[i] < 0x80 && b[i] < 0x80); i += 1; }
    let sa: &'static str = Box::leak(String::from_utf8(a.to_vec()).unwrap().into_boxed_str());
    let sb: &'static str = Box::leak(String::from_utf8(b.to_vec()).unwrap().into_boxed_str());
    let (ia, ib) = (StableTypeID::from_unique_type_name(sa), StableTypeID::from_unique_type_name(sb));
    // not a collision-freedom proof: a witness that a one-byte difference at every position can change the id
    kani::cover!(ia != ib && k == 0, "difference in the first chunk byte changes the id");
    kani::cover!(ia != ib && k == 8, "difference in the tail byte changes the id");
    assert!(StableTypeID::from_unique_type_name(sa) == ia, "pure function of the name");
});

h!(c14_xq_universe_twin, 3, {
    let i: usize = kani::any();
    let j: usize = kani::any();
    kani::assume(i <= j && j < N);
    assert!(TABLE[i] != TABLE[j], "TWIN deliberately wrong: allows i == j");
});

include!("gen/playback_c14.rs");
