//! C13 — stable hashes: determinism, history-freedom, discriminating byte streams.
//!
//! Observation device: `Rec`, a `StableHasher` that records the byte stream the real
//! `StableHash` impls feed to it (they are generic in the hasher, so this executes the real impls).
use crate::common::*;
use qbice_stable_hash::{BuildStableHasher, SeededStableHasherBuilder, Sip128Hasher, StableHash, StableHasher};
use std::collections::{BTreeMap, BTreeSet, BinaryHeap, HashMap, HashSet, LinkedList, VecDeque};
use std::rc::Rc;
use std::sync::Arc;

pub const CAP: usize = 40; // = 5 words, see Rec::same

#[derive(Clone, Copy)]
pub struct Rec {
    pub buf: [u8; CAP],
    pub len: usize,
}
impl Rec {
    pub fn new() -> Self { Rec { buf: [0; CAP], len: 0 } }
    /// injective packing of a short stream into 128 bits (length in the top byte)
    fn pack(&self) -> u128 {
        assert!(self.len <= 15, "sub-stream fits the injective packing");
        let mut w = [0u8; 16];
        w[..15].copy_from_slice(&self.buf[..15]);
        w[15] = self.len as u8;
        u128::from_le_bytes(w)
    }
    fn word(&self, i: usize) -> u64 {
        let b = &self.buf;
        u64::from_le_bytes([b[8 * i], b[8 * i + 1], b[8 * i + 2], b[8 * i + 3], b[8 * i + 4], b[8 * i + 5], b[8 * i + 6], b[8 * i + 7]])
    }
    /// loop-free comparison (keeps the harness unwind bound independent of the recorder capacity)
    pub fn same(&self, o: &Rec) -> bool {
        self.len == o.len
            && self.word(0) == o.word(0)
            && self.word(1) == o.word(1)
            && self.word(2) == o.word(2)
            && self.word(3) == o.word(3)
            && self.word(4) == o.word(4)
    }
}
impl StableHasher for Rec {
    type Hash = u128;
    fn finish(&self) -> u128 { self.pack() }
    fn write(&mut self, bytes: &[u8]) {
        let n = bytes.len();
        assert!(self.len + n <= CAP, "recorder capacity");
        self.buf[self.len..self.len + n].copy_from_slice(bytes);
        self.len += n;
    }
    fn sub_hash(&self, f: &mut dyn FnMut(&mut dyn StableHasher<Hash = u128>)) -> u128 {
        let mut sub = Rec::new();
        f(&mut sub);
        sub.pack()
    }
}

pub fn stream<T: StableHash + ?Sized>(v: &T) -> Rec {
    let mut r = Rec::new();
    v.stable_hash(&mut r);
    r
}

macro_rules! h {
    ($name:ident, $unw:expr, $body:block) => {
        #[kani::proof]
        #[kani::unwind($unw)]
        #[kani::stub(std::hash::RandomState::new, rs_stub)]
        #[kani::stub(alloc::fmt::format, fmt_stub)]
        fn $name() $body
    };
}

/// discrimination: stream(a) == stream(b)  <=>  a == b, for two independent symbolic values
macro_rules! disc {
    ($name:ident, $ty:ty, $mk:expr) => {
        h!($name, 6, {
            let a: $ty = $mk;
            let b: $ty = $mk;
            let (ra, rb) = (stream(&a), stream(&b));
            let same = ra.same(&rb);
            assert!(!(a == b) || same, "equal values feed equal streams");
            assert!(!same || a == b, "equal streams only from equal values");
            kani::cover!(same, "an equal pair exists");
            kani::cover!(!same && ra.len == rb.len, "an unequal pair of equal stream length exists");
            std::mem::forget((a, b));
        });
    };
}
disc!(c13_q_disc_u8, u8, kani::any());
disc!(c13_q_disc_i8, i8, kani::any());
disc!(c13_q_disc_u16, u16, kani::any());
disc!(c13_q_disc_i16, i16, kani::any());
disc!(c13_q_disc_u32, u32, kani::any());
disc!(c13_t_disc_i32, i32, kani::any());
disc!(c13_q_disc_u64, u64, kani::any());
disc!(c13_t_disc_i64, i64, kani::any());
disc!(c13_q_disc_u128, u128, kani::any());
disc!(c13_t_disc_i128, i128, kani::any());
disc!(c13_q_disc_usize, usize, kani::any());
disc!(c13_t_disc_isize, isize, kani::any());
disc!(c13_q_disc_bool, bool, kani::any());
disc!(c13_q_disc_char, char, kani::any());
disc!(c13_q_disc_tuple2, (u8, u16), (kani::any(), kani::any()));
disc!(c13_q_disc_tuple3, (u16, u8, u16), (kani::any(), kani::any(), kani::any()));
disc!(c13_q_disc_tuple_nested, ((u8, u8), u8), ((kani::any(), kani::any()), kani::any()));
disc!(c13_q_disc_option_u8, Option<u8>, kani::any());
disc!(c13_q_disc_option_option_u8, Option<Option<u8>>, kani::any());
disc!(c13_q_disc_result_u8_u8, Result<u8, u8>, kani::any());
disc!(c13_q_disc_result_u16_u8, Result<u16, u8>, kani::any());
disc!(c13_q_disc_array2, [u8; 2], kani::any());
disc!(c13_q_disc_range_u8, std::ops::Range<u8>, kani::any::<u8>()..kani::any::<u8>());
disc!(c13_t_disc_rangeincl_u8, std::ops::RangeInclusive<u8>, kani::any::<u8>()..=kani::any::<u8>());
disc!(c13_q_disc_nonzero_u16, std::num::NonZeroU16, kani::any());
disc!(c13_q_disc_duration, std::time::Duration, { let n: u32 = kani::any(); kani::assume(n < 1_000_000_000); std::time::Duration::new(kani::any(), n) });

// floats: equality = same bits, or both NaN (NaN payloads are normalised); 0.0 / -0.0 hashing
// differently is not flagged (errs on the side of "changed")
h!(c13_q_disc_f32, 8, {
    let a: f32 = kani::any();
    let b: f32 = kani::any();
    let same = stream(&a).same(&stream(&b));
    let eq = a.to_bits() == b.to_bits() || (a.is_nan() && b.is_nan());
    assert!(same == eq, "f32: streams equal iff same bits or both NaN");
    kani::cover!(a.is_nan() && b.is_nan() && a.to_bits() != b.to_bits(), "two different NaN payloads");
});
h!(c13_q_disc_f64, 8, {
    let a: f64 = kani::any();
    let b: f64 = kani::any();
    let same = stream(&a).same(&stream(&b));
    let eq = a.to_bits() == b.to_bits() || (a.is_nan() && b.is_nan());
    assert!(same == eq, "f64: streams equal iff same bits or both NaN");
    kani::cover!(a.is_nan() && b.is_nan() && a.to_bits() != b.to_bits(), "two different NaN payloads");
});

// sequences: all pairs of (concrete) lengths 0..2, symbolic content
fn vec_u8<const L: usize>() -> Vec<u8> { let a: [u8; L] = kani::any(); a.to_vec() }
fn ascii<const L: usize>() -> String {
    let a: [u8; L] = kani::any();
    let mut i = 0;
    while i < L { kani::assume(a[i] < 0x80); i += 1; }
    unsafe { String::from_utf8_unchecked(a.to_vec()) }
}
macro_rules! disc_seq {
    ($name:ident, $ty:ty, $mka:expr, $mkb:expr) => {
        h!($name, 6, {
            let a: $ty = $mka;
            let b: $ty = $mkb;
            let same = stream(&a).same(&stream(&b));
            assert!(!(a == b) || same, "equal values feed equal streams");
            assert!(!same || a == b, "equal streams only from equal values");
            kani::cover!(!same || stream(&a).len == 8, "an unequal pair exists (or both are the empty sequence)");
            std::mem::forget((a, b));
        });
    };
}
disc_seq!(c13_q_disc_vec_0_0, Vec<u8>, vec_u8::<0>(), vec_u8::<0>());
disc_seq!(c13_q_disc_vec_0_1, Vec<u8>, vec_u8::<0>(), vec_u8::<1>());
disc_seq!(c13_q_disc_vec_1_1, Vec<u8>, vec_u8::<1>(), vec_u8::<1>());
disc_seq!(c13_q_disc_vec_1_2, Vec<u8>, vec_u8::<1>(), vec_u8::<2>());
disc_seq!(c13_q_disc_vec_2_2, Vec<u8>, vec_u8::<2>(), vec_u8::<2>());
disc_seq!(c13_q_disc_string_0_1, String, ascii::<0>(), ascii::<1>());
disc_seq!(c13_q_disc_string_1_2, String, ascii::<1>(), ascii::<2>());
disc_seq!(c13_q_disc_string_2_2, String, ascii::<2>(), ascii::<2>());
// the classic concatenation ambiguities: ("a","bc") vs ("ab","c"), ([x],[y,z]) vs ([x,y],[z])
disc_seq!(c13_q_disc_strpair_12_21, (String, String), (ascii::<1>(), ascii::<2>()), (ascii::<2>(), ascii::<1>()));
disc_seq!(c13_q_disc_strpair_03_30, (String, String), (ascii::<0>(), ascii::<3>()), (ascii::<3>(), ascii::<0>()));
disc_seq!(c13_q_disc_strpair_11_11, (String, String), (ascii::<1>(), ascii::<1>()), (ascii::<1>(), ascii::<1>()));
disc_seq!(c13_q_disc_vecpair_12_21, (Vec<u8>, Vec<u8>), (vec_u8::<1>(), vec_u8::<2>()), (vec_u8::<2>(), vec_u8::<1>()));
disc_seq!(c13_q_disc_vecpair_02_11, (Vec<u8>, Vec<u8>), (vec_u8::<0>(), vec_u8::<2>()), (vec_u8::<1>(), vec_u8::<1>()));
disc_seq!(c13_q_disc_vecvec_a, Vec<Vec<u8>>, vec![vec_u8::<1>(), vec_u8::<1>()], vec![vec_u8::<2>()]);
disc_seq!(c13_t_disc_vecvec_b, Vec<Vec<u8>>, vec![vec_u8::<0>(), vec_u8::<2>()], vec![vec_u8::<2>(), vec_u8::<0>()]);
disc_seq!(c13_t_disc_vecvec_c, Vec<Vec<u8>>, vec![vec_u8::<0>()], vec![]);
disc_seq!(c13_q_disc_vecstring, Vec<String>, vec![ascii::<1>(), ascii::<1>()], vec![ascii::<2>()]);
disc_seq!(c13_q_disc_optvec, Option<Vec<u8>>, if kani::any() { Some(vec_u8::<1>()) } else { None }, if kani::any() { Some(vec_u8::<0>()) } else { None });
disc_seq!(c13_t_disc_vecopt, Vec<Option<u8>>, vec![kani::any(), kani::any()], vec![kani::any()]);
disc_seq!(c13_q_disc_vecdeque_1_2, VecDeque<u8>, vec_u8::<1>().into_iter().collect(), vec_u8::<2>().into_iter().collect());
disc_seq!(c13_t_disc_linkedlist_2_2, LinkedList<u8>, vec_u8::<2>().into_iter().collect(), vec_u8::<2>().into_iter().collect());
disc_seq!(c13_t_disc_btreeset_2_2, BTreeSet<u8>, vec_u8::<2>().into_iter().collect(), vec_u8::<2>().into_iter().collect());
disc_seq!(c13_t_disc_btreemap_1_2, BTreeMap<u8, u8>, [(kani::any(), kani::any())].into_iter().collect(), [(kani::any(), kani::any()), (kani::any(), kani::any())].into_iter().collect());

// the length prefix itself, for SYMBOLIC lengths: the encoding must be injective and prefix-free,
// otherwise "prefix ++ content" of one value can be re-read as a longer prefix of another
// (container harnesses above only reach lengths 0..3)
h!(c13_q_length_prefix_prefix_free, 42, {
    let (l1, l2): (usize, usize) = (kani::any(), kani::any());
    kani::assume(l1 != l2);
    let (mut a, mut b) = (Rec::new(), Rec::new());
    a.write_length_prefix(l1);
    b.write_length_prefix(l2);
    assert!(!a.same(&b), "different lengths feed different prefixes");
    // neither prefix encoding is a proper prefix of the other
    let (short, long) = if a.len <= b.len { (&a, &b) } else { (&b, &a) };
    let mut is_prefix = true;
    let mut i = 0;
    while i < CAP {
        if i < short.len && short.buf[i] != long.buf[i] { is_prefix = false; }
        i += 1;
    }
    assert!(!is_prefix, "the length-prefix encoding is prefix-free");
    kani::cover!(l1 == 255 && l2 > 255, "lengths around the one-byte boundary");
    kani::cover!(l1 > u32::MAX as usize, "length above 32 bits");
});
// derived types
use crate::types::*;
disc!(c13_q_disc_derive_tuple_struct, Tup, Tup(kani::any(), kani::any()));
disc!(c13_q_disc_derive_named_struct, Named, Named { a: kani::any(), b: kani::any(), c: kani::any() });
disc!(c13_q_disc_derive_generic, Gen<u8, Gen<u16, bool>>, Gen { a: kani::any(), b: Gen { a: kani::any(), b: kani::any() } });
disc!(c13_q_disc_derive_enum, HEn<u8>, any_hen());
h!(c13_q_disc_derive_enum_same_payload, 8, {
    // same payload value under two different variants must not feed the same stream
    let x: u8 = kani::any();
    let a: HEn<u8> = HEn::D(x);
    let b: HEn<u8> = HEn::G(x);
    assert!(!stream(&a).same(&stream(&b)), "variant tag is part of the stream");
    let c: HEn<u8> = HEn::A;
    let d: HEn<u8> = HEn::F;
    assert!(!stream(&c).same(&stream(&d)), "unit variants differ");
    kani::cover!(x == 0, "payload zero");
});

// ------------------------------------------------------------------------------------------
// history-freedom: the same abstract value along two construction paths

h!(c13_q_hist_vec_capacity, 8, {
    let x: [u16; 2] = kani::any();
    let a = x.to_vec();
    let mut b: Vec<u16> = Vec::with_capacity(9);
    b.push(x[0]); b.push(0); b.pop(); b.push(x[1]);
    assert!(stream(&a).same(&stream(&b)), "capacity / push-pop history does not matter");
    assert!(stream(&a).same(&stream(&x[..])), "Vec and slice agree");
    kani::cover!(b.capacity() != a.capacity(), "capacities differ");
    std::mem::forget((a, b));
});
h!(c13_q_hist_pointers, 8, {
    let x: (u16, Option<u8>) = kani::any();
    let r = stream(&x);
    assert!(r.same(&stream(&Box::new(x))), "Box");
    assert!(r.same(&stream(&Rc::new(x))), "Rc");
    assert!(r.same(&stream(&Arc::new(x))), "Arc");
    assert!(r.same(&stream(&&x)), "&T");
    let c: std::borrow::Cow<'_, (u16, Option<u8>)> = std::borrow::Cow::Borrowed(&x);
    assert!(r.same(&stream(&c)), "Cow::Borrowed");
    let c2: std::borrow::Cow<'_, (u16, Option<u8>)> = std::borrow::Cow::Owned(x);
    assert!(r.same(&stream(&c2)), "Cow::Owned");
    let y = x; // separately allocated equal value: no address dependence
    assert!(r.same(&stream(&Box::new(y))), "second allocation");
    kani::cover!(x.1.is_some(), "Some payload");
});
h!(c13_q_hist_strings, 8, {
    let s = ascii::<2>();
    let r = stream(&s);
    assert!(r.same(&stream(s.as_str())), "str");
    let b: Box<str> = s.clone().into_boxed_str();
    assert!(r.same(&stream(&b)), "Box<str>");
    let a: Arc<str> = Arc::from(s.as_str());
    assert!(r.same(&stream(&a)), "Arc<str>");
    let mut t = String::with_capacity(30);
    t.push_str(&s);
    assert!(r.same(&stream(&t)), "other capacity");
    kani::cover!(r.len == 10, "8-byte prefix + 2 bytes");
    std::mem::forget((s, b, a, t));
});
h!(c13_q_hist_vecdeque_wrapped, 8, {
    let x: [u8; 3] = kani::any();
    let a: VecDeque<u8> = x.iter().copied().collect();
    let mut b: VecDeque<u8> = VecDeque::with_capacity(4);
    b.push_back(9); b.push_back(9); b.push_back(x[0]);
    b.pop_front(); b.pop_front();
    b.push_back(x[1]); b.push_back(x[2]);
    assert!(stream(&a).same(&stream(&b)), "ring-buffer position does not matter");
    let mut c: VecDeque<u8> = VecDeque::new();
    c.push_front(x[2]); c.push_front(x[1]); c.push_front(x[0]);
    assert!(stream(&a).same(&stream(&c)), "push_front history does not matter");
    assert!(stream(&a).same(&stream(&x.to_vec())), "VecDeque and Vec of equal content agree");
    kani::cover!(b.as_slices().1.len() > 0, "wrapped");
    std::mem::forget((a, b, c));
});
h!(c13_q_hist_binaryheap_orders, 8, {
    let x: [u8; 3] = kani::any();
    let mut a = BinaryHeap::new();
    a.push(x[0]); a.push(x[1]); a.push(x[2]);
    let mut b = BinaryHeap::new();
    b.push(x[2]); b.push(x[0]); b.push(x[1]);
    let mut c = BinaryHeap::new();
    c.push(x[1]); c.push(255); c.push(x[2]); c.push(x[0]);
    let top = c.pop();
    assert!(top == Some(255));
    assert!(stream(&a).same(&stream(&b)), "push order does not matter");
    assert!(stream(&a).same(&stream(&c)), "push/pop history does not matter");
    kani::cover!(x[0] < x[1] && x[1] < x[2], "ascending");
    kani::cover!(x[0] > x[1] && x[1] > x[2], "descending");
    std::mem::forget((a, b, c));
});
h!(c13_q_hist_btreemap_orders, 8, {
    // concrete keys (the tree shape is constant-folded), symbolic values
    let k: [u8; 2] = [200, 3];
    let v: [u8; 2] = kani::any();
    let mut a = BTreeMap::new();
    a.insert(k[0], v[0]); a.insert(k[1], v[1]);
    let mut b = BTreeMap::new();
    b.insert(k[1], v[1]); b.insert(k[0], 0); b.insert(k[0], v[0]);
    assert!(stream(&a).same(&stream(&b)), "insertion order / overwrite history does not matter");
    kani::cover!(v[0] != v[1], "different values");
    std::mem::forget((a, b));
});

// (HashSet / HashMap built with two symbolic hasher seeds were tried: no answer in 30 minutes -
// hashbrown's group probing; their commutative combination is the same code path as BinaryHeap's)

// F4 (repaired): equal paths - `Path` equality compares components - must hash equally
h!(c13_q_hist_path_equal_spellings, 12, {
    use std::path::Path;
    assert!(Path::new("a/") == Path::new("a") && stream(Path::new("a/")).same(&stream(Path::new("a"))), "trailing separator");
    assert!(Path::new("a//b") == Path::new("a/b") && stream(Path::new("a//b")).same(&stream(Path::new("a/b"))), "repeated separator");
    assert!(stream(&std::path::PathBuf::from("a/./b")).same(&stream(Path::new("a/b"))), "current-dir component, PathBuf vs Path");
    assert!(!stream(Path::new("a/b")).same(&stream(Path::new("ab"))), "different component lists differ");
    assert!(!stream(Path::new("a/b")).same(&stream(Path::new("a"))), "prefix list differs");
    kani::cover!(stream(Path::new("a/b")).len > 8, "components were hashed");
});

// ------------------------------------------------------------------------------------------
// seeded SipHash-128: builder == "fresh SipHasher fed seed (LE) then the recorded stream"

fn sip_of_stream(seed: u64, r: &Rec) -> u128 {
    use siphasher::sip128::Hasher128;
    let mut h = siphasher::sip128::SipHasher::new();
    std::hash::Hasher::write(&mut h, &seed.to_le_bytes());
    std::hash::Hasher::write(&mut h, &r.buf[..r.len]);
    h.finish128().into()
}
h!(c13_q_sip_seeded_u64, 20, {
    let seed: u64 = kani::any();
    let v: u64 = kani::any();
    let mut h = SeededStableHasherBuilder::<Sip128Hasher>::new(seed).build_stable_hasher();
    v.stable_hash(&mut h);
    let got: u128 = StableHasher::finish(&h);
    assert!(got == sip_of_stream(seed, &stream(&v)), "seeded builder = SipHash-128(seed LE || stream)");
    // determinism: a second, independently built hasher agrees
    let mut h2 = SeededStableHasherBuilder::<Sip128Hasher>::new(seed).build_stable_hasher();
    v.stable_hash(&mut h2);
    assert!(StableHasher::finish(&h2) == got, "deterministic");
    // sub_hash leaves the parent untouched
    let before: u128 = StableHasher::finish(&h);
    let _ = h.sub_hash(&mut |s| 7u8.stable_hash(s));
    assert!(StableHasher::finish(&h) == before, "sub_hash does not disturb the parent state");
    kani::cover!(seed != 0 && v != 0, "non-trivial seed and value");
});
h!(c13_t_sip_seeded_tuple, 20, {
    let seed: u64 = kani::any();
    let v: (u8, u16) = kani::any();
    let mut h = SeededStableHasherBuilder::<Sip128Hasher>::new(seed).build_stable_hasher();
    v.stable_hash(&mut h);
    let got: u128 = StableHasher::finish(&h);
    assert!(got == sip_of_stream(seed, &stream(&v)), "seeded builder = SipHash-128(seed LE || stream)");
    kani::cover!(seed == u64::MAX, "max seed");
});

// ------------------------------------------------------------------------------------------
// after a serialization round trip

h!(c13_q_rt_enum, 8, {
    let v = any_hen();
    let s: u8 = kani::any();
    let (o, _l, _n) = rt(&v, s);
    assert!(stream(&o).same(&stream(&v)), "stream(decode(encode(v))) == stream(v)");
    kani::cover!(matches!(v, HEn::C { .. }), "named variant");
});
h!(c13_t_rt_vec_u16, 8, {
    let x: [u16; 2] = kani::any();
    let v = x.to_vec();
    let s: u8 = kani::any();
    let (o, _l, _n) = rt(&v, s);
    assert!(stream(&o).same(&stream(&v)), "stream(decode(encode(v))) == stream(v)");
    kani::cover!(x[0] > 0x3fff, "3-byte varint");
    std::mem::forget((o, v));
});

// ------------------------------------------------------------------------------------------
// twins

h!(c13_xq_disc_strpair, 8, {
    // claims the pair of strings is hashed as the bare concatenation (no length prefix)
    let a = (ascii::<1>(), ascii::<2>());
    let b = (ascii::<2>(), ascii::<1>());
    let cat_eq = a.0.as_bytes()[0] == b.0.as_bytes()[0] && a.1.as_bytes()[0] == b.0.as_bytes()[1] && a.1.as_bytes()[1] == b.1.as_bytes()[0];
    assert!(!cat_eq || stream(&a).same(&stream(&b)), "TWIN deliberately wrong: concatenation-equal pairs hash equal");
    std::mem::forget((a, b));
});
h!(c13_x_hist_binaryheap, 8, {
    let x: [u8; 2] = kani::any();
    let mut a = BinaryHeap::new();
    a.push(x[0]); a.push(x[1]);
    let mut b = BinaryHeap::new();
    b.push(x[1]);
    assert!(stream(&a).same(&stream(&b)), "TWIN deliberately wrong: different multisets hash equal");
    std::mem::forget((a, b));
});

include!("gen/playback_c13.rs");
