//! Derived types shared by the harness modules (all derives come from /repo's proc macros).
use qbice_serialize::{Decode, Encode};
use qbice_stable_hash::StableHash;

#[derive(Encode, Decode, StableHash, PartialEq, Debug, Clone, Copy)]
#[serialize_crate(qbice_serialize)]
#[stable_hash_crate(qbice_stable_hash)]
pub struct Unit;
#[derive(Encode, Decode, StableHash, PartialEq, Debug, Clone, Copy)]
#[serialize_crate(qbice_serialize)]
#[stable_hash_crate(qbice_stable_hash)]
pub struct Tup(pub u16, pub i32);
#[derive(Encode, Decode, StableHash, PartialEq, Debug, Clone, Copy)]
#[serialize_crate(qbice_serialize)]
#[stable_hash_crate(qbice_stable_hash)]
pub struct Named { pub a: u8, pub b: Option<u16>, pub c: i16 }
#[derive(Encode, Decode, StableHash, PartialEq, Debug, Clone, Copy)]
#[serialize_crate(qbice_serialize)]
#[stable_hash_crate(qbice_stable_hash)]
pub struct Gen<A, B> { pub a: A, pub b: B }
#[derive(Encode, Decode, PartialEq, Debug, Clone, Copy)]
#[serialize_crate(qbice_serialize)]
pub struct Skip { pub a: u16, #[serialize(skip)] pub cache: u32, pub b: u8 }
#[derive(Encode, Decode, PartialEq, Debug, Clone, Copy)]
#[serialize_crate(qbice_serialize)]
pub struct SkipTup(pub u8, #[serialize(skip)] pub u64, pub u16);
#[derive(Encode, Decode, PartialEq, Debug, Clone, Copy)]
#[serialize_crate(qbice_serialize)]
pub enum En<T> {
    A,
    B(u16, i8),
    C { x: u8, y: Option<u8> },
    D(T),
    E { #[serialize(skip)] skipped: u16, kept: u16 },
    F,
}
/// enum used for hashing (no skipped fields): unit, tuple, named, generic, same-payload variants
#[derive(Encode, Decode, StableHash, PartialEq, Debug, Clone, Copy)]
#[serialize_crate(qbice_serialize)]
#[stable_hash_crate(qbice_stable_hash)]
pub enum HEn<T> {
    A,
    B(u16, i8),
    C { x: u8, y: Option<u8> },
    D(T),
    F,
    G(T),
}

#[cfg(kani)]
pub fn any_en() -> En<u16> {
    let tag: u8 = kani::any();
    match tag % 6 {
        0 => En::A,
        1 => En::B(kani::any(), kani::any()),
        2 => En::C { x: kani::any(), y: kani::any() },
        3 => En::D(kani::any()),
        4 => En::E { skipped: 0, kept: kani::any() },
        _ => En::F,
    }
}
#[cfg(kani)]
pub fn any_hen() -> HEn<u8> {
    let tag: u8 = kani::any();
    match tag % 6 {
        0 => HEn::A,
        1 => HEn::B(kani::any(), kani::any()),
        2 => HEn::C { x: kani::any(), y: kani::any() },
        3 => HEn::D(kani::any()),
        4 => HEn::F,
        _ => HEn::G(kani::any()),
    }
}
