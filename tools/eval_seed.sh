#!/bin/bash
# usage: tools/eval_seed.sh <seed-name> <property> [extra ./check args...]
# Applies /verif/seeded/<seed-name>/patch.diff to /repo, runs the property's check, reverts /repo.
# Evidence files are saved and restored (evidence must come from the unchanged tree).
set -u
seed=$1; prop=$2; shift 2
cd /verif
git -C /repo diff --quiet || { echo "/repo is dirty, refusing"; exit 3; }
tmp=$(mktemp -d /tmp/evsave.XXXX); cp -r evidence/. $tmp/ 2>/dev/null
git -C /repo apply /verif/seeded/$seed/patch.diff || { echo "patch does not apply"; exit 3; }
out=seeded/$seed/check_${prop}.log
./check $prop "$@" > $out 2>&1; rc=$?
git -C /repo checkout -- . ; git -C /repo clean -fdq
cp -r $tmp/. evidence/; rm -rf $tmp
echo "seed=$seed prop=$prop rc=$rc"; grep -a "VIOLATION\|INCONCLUSIVE\|obligations" $out | cut -c1-200
