#!/bin/bash
# usage: tools/eval_seed_isolated.sh <seed-name> <property> [extra ./check args...]
# Like eval_seed.sh, but on private copies (/tmp/repo_eval = worktree of /repo HEAD, /tmp/verif_eval = copy of /verif
# with the path dependencies rewritten), so that it can run while other checks use /repo.
set -u
seed=$1; prop=$2; shift 2
[ -d /tmp/repo_eval ] || git -C /repo worktree add -q /tmp/repo_eval HEAD
git -C /tmp/repo_eval checkout -q --detach $(git -C /repo rev-parse HEAD); git -C /tmp/repo_eval checkout -- . ; git -C /tmp/repo_eval clean -fdq
mkdir -p /tmp/verif_eval
rsync -a --delete --exclude .kani --exclude .git --exclude evidence --exclude replay /verif/ /tmp/verif_eval/
sed -i 's|/repo/|/tmp/repo_eval/|g' /tmp/verif_eval/harness/*/Cargo.toml
git -C /tmp/repo_eval apply /verif/seeded/$seed/patch.diff || { echo "patch does not apply"; exit 3; }
out=/verif/seeded/$seed/check_${prop}.log
(cd /tmp/verif_eval && VERIF_REPO=/tmp/repo_eval ./check $prop "$@" > $out 2>&1); rc=$?
git -C /tmp/repo_eval checkout -- . ; git -C /tmp/repo_eval clean -fdq
echo "seed=$seed prop=$prop rc=$rc"; grep -a "VIOLATION\|INCONCLUSIVE\|obligations" $out | cut -c1-200
