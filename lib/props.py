"""Per-property configuration of the checks (what is run, what is claimed, what is assumed)."""
import re

TIERS = {
    "quick": {"jobs": 6, "harness_timeout_s": 900, "mem_gb": 14},
    "thorough": {"jobs": 6, "harness_timeout_s": 2400, "mem_gb": 24},
}

STUBS_COMMON = [
    "stub: std::hash::RandomState::new -> constant keys (OS randomness; no harness asserts an iteration order)",
    "stub: alloc::fmt::format -> String::new() (text of error messages is never inspected)",
    "Kani/CBMC/CaDiCaL and rustc's MIR are trusted; CBMC's memory model (object_bits=16) is assumed adequate",
    "container lengths are concrete per harness instance (stated in its bounds); values are symbolic",
]

PROPS = {}

PROPS["C12"] = {
    "units": [{"crate": "core", "prefix": "c12"}],
    "scope": "decode(encode(v)) == v with exact consumption through the real PostcardEncoder/PostcardDecoder and the "
             "public Encoder::encode / Decoder::decode entry points",
    "bounds": "see per-harness bounds in samples",
    "outside": ["DashMap/DashSet (Kani ICE on thread_local)", "container lengths above the per-harness bound",
                "decoder behaviour on malformed input"],
    "assumptions": STUBS_COMMON,
}

SETUP_UNITS = [("core", [])]

# harness-name regex -> human-readable bound description (first match wins)
DESCR = [
    (r"c12_\w_int_(\w+)", "full value range of {0} symbolic; unwind = ceil(bits/7)+2; sentinel byte symbolic"),
]


def describe(fn):
    for pat, txt in DESCR:
        m = re.match(pat, fn)
        if m:
            return txt.format(*m.groups())
    return ""
