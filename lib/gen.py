"""Regeneration of harness inputs from /repo's current source (run before every build)."""
import os


def generate(crate, repo, outdir):
    info = {}
    os.makedirs(outdir, exist_ok=True)
    if crate == "core":
        pass
    return info
