"""Regeneration of harness inputs from /repo's current source (run before every build)."""
import hashlib, os, re, itertools


def generate(crate, repo, outdir):
    info = {}
    os.makedirs(outdir, exist_ok=True)
    if crate == "core":
        info.update(gen_c14_table(outdir))
    if crate == "kern":
        import gen_kern
        info.update(gen_kern.generate(repo, outdir, os.path.join(os.path.dirname(outdir), "..", "drivers")))
    return info


# ----------------------------------------------------------------------------------------------
# C14: constructor-closed type universe over the real `Identifiable::STABLE_TYPE_ID` consts

LEAVES_SIZED = [
    "u8", "u16", "u32", "u64", "u128", "usize", "i8", "i16", "i32", "i64", "i128", "isize",
    "bool", "char", "f32", "f64", "String", "()", "std::time::Duration", "std::path::PathBuf",
    "std::num::NonZeroU8", "std::num::NonZeroI64", "std::sync::atomic::AtomicU8", "std::ops::RangeFull",
    "std::cmp::Ordering", "std::ffi::OsString", "std::ffi::CString",
    "crate::c14::L1", "crate::c14::m1::Same", "crate::c14::m2::Same",
]
LEAVES_UNSIZED = ["str", "std::path::Path", "std::ffi::OsStr", "std::ffi::CStr"]

# (template, accepts ?Sized argument)
UNARY = [
    ("Vec<{}>", False), ("Option<{}>", False), ("Box<{}>", True), ("std::sync::Arc<{}>", True),
    ("std::rc::Rc<{}>", True), ("std::sync::Weak<{}>", True), ("std::rc::Weak<{}>", True),
    ("[{}; 0]", False), ("[{}; 1]", False), ("[{}; 2]", False), ("[{}; 3]", False),
    ("&'static {}", True), ("&'static mut {}", True), ("*const {}", True), ("*mut {}", True),
    ("std::cell::Cell<{}>", True), ("std::cell::RefCell<{}>", True), ("std::cell::UnsafeCell<{}>", True),
    ("std::cell::OnceCell<{}>", False), ("std::sync::Mutex<{}>", True), ("std::sync::RwLock<{}>", True),
    ("std::sync::OnceLock<{}>", False), ("std::marker::PhantomData<{}>", True),
    ("std::mem::ManuallyDrop<{}>", True), ("std::mem::MaybeUninit<{}>", False),
    ("std::ptr::NonNull<{}>", True), ("std::num::Wrapping<{}>", False), ("std::num::Saturating<{}>", False),
    ("std::sync::atomic::AtomicPtr<{}>", False), ("std::ops::Range<{}>", False),
    ("std::ops::RangeFrom<{}>", False), ("std::ops::RangeInclusive<{}>", False),
    ("std::ops::RangeTo<{}>", False), ("std::ops::RangeToInclusive<{}>", False), ("std::ops::Bound<{}>", False),
    ("std::collections::BTreeSet<{}>", False), ("std::collections::VecDeque<{}>", False),
    ("({},)", False), ("crate::c14::G1<{}>", False), ("crate::c14::H1<{}>", False),
    ("std::pin::Pin<{}>", False), ("std::hash::BuildHasherDefault<{}>", False),
]
UNARY_TO_UNSIZED = [("[{}]", False)]
BINARY = ["Result<{}, {}>", "({}, {})", "std::collections::BTreeMap<{}, {}>", "crate::c14::G2<{}, {}>",
          "std::collections::HashSet<{}, {}>", "crate::c14::H2<{}, {}>"]
TERNARY = ["({}, {}, {})", "std::collections::HashMap<{}, {}, {}>"]


def build_universe():
    types = []  # (expr, sized)
    seen = set()

    def add(t, sized=True):
        if t not in seen:
            seen.add(t)
            types.append((t, sized))

    for l in LEAVES_SIZED:
        add(l)
    for l in LEAVES_UNSIZED:
        add(l, False)
    level0 = list(types)
    # depth 1: every unary constructor on every leaf
    level1 = []
    for tmpl, unsized_ok in UNARY:
        for t, sized in level0:
            if sized or unsized_ok:
                e = tmpl.format(t)
                add(e)
                level1.append(e)
    for tmpl, _ in UNARY_TO_UNSIZED:
        for t, sized in level0:
            if sized:
                add(tmpl.format(t), False)
    # binary constructors on ordered pairs (argument swaps present)
    pair_base = ["u8", "u16", "String", "()", "bool", "crate::c14::m1::Same", "crate::c14::m2::Same", "Vec<u8>", "Option<u8>", "(u8,)"]
    for tmpl in BINARY:
        for a, b in itertools.product(pair_base, repeat=2):
            add(tmpl.format(a, b))
    tri_base = ["u8", "u16", "String", "()"]
    for tmpl in TERNARY:
        for a, b, c in itertools.product(tri_base, repeat=3):
            add(tmpl.format(a, b, c))
    # tuples of arity 1..4 incl. association variants
    for a, b, c in itertools.product(["u8", "u16", "bool"], repeat=3):
        add(f"(({a}, {b}), {c})")
        add(f"({a}, ({b}, {c}))")
        add(f"(({a},), {b}, {c})")
        add(f"({a}, {b}, {c}, {a})")
        add(f"[{a}; 2]")
        add(f"(({a}, {b}), ({c},))")
    add("(u8, u8, u8, u8, u8, u8, u8, u8, u8, u8, u8, u8, u8, u8, u8, u8)")
    add("(u8, u8, u8, u8, u8, u8, u8, u8, u8, u8, u8, u8, u8, u8, u8)")
    # depth 2: a subset of unary constructors over a subset of depth-1 types
    ctor2 = ["Vec<{}>", "Option<{}>", "Box<{}>", "std::sync::Arc<{}>", "[{}; 1]", "[{}; 2]", "&'static {}",
             "std::cell::RefCell<{}>", "std::ops::Range<{}>", "({},)", "crate::c14::G1<{}>", "crate::c14::H1<{}>",
             "std::collections::BTreeSet<{}>", "std::num::Wrapping<{}>", "std::marker::PhantomData<{}>"]
    arg2 = [e for e in level1 if re.search(r"(<|\[|\(|&'static |\*const )(u8|String|bool|crate::c14::m1::Same)(>|; \d\]|,\))?$", e)]
    for tmpl in ctor2:
        for e in arg2:
            add(tmpl.format(e))
    # depth-3 slice
    for x in ["u8", "String"]:
        for c1, c2, c3 in itertools.product(["Vec<{}>", "Option<{}>", "Box<{}>", "({},)", "crate::c14::G1<{}>"], repeat=3):
            add(c1.format(c2.format(c3.format(x))))
    # binary over depth-1 arguments
    for tmpl in ["Result<{}, {}>", "({}, {})", "crate::c14::G2<{}, {}>"]:
        for a, b in itertools.product(["Vec<u8>", "Option<u8>", "Box<u8>", "(u8,)", "[u8; 1]", "crate::c14::G1<u8>"], repeat=2):
            add(tmpl.format(a, b))
    return types


def gen_c14_table(outdir):
    types = build_universe()
    n = len(types)
    lines = ["// generated by lib/gen.py (C14 universe); ids are the real compile-time consts of /repo",
             "use qbice_stable_type_id::Identifiable;",
             f"pub const N: usize = {n};",
             f"pub static TABLE: [u128; {n}] = ["]
    for t, _ in types:
        lines.append(f"    <{t} as Identifiable>::STABLE_TYPE_ID.as_u128(),")
    lines.append("];")
    lines.append(f"pub static NAMES: [&str; {n}] = [")
    for t, _ in types:
        lines.append(f'    "{t}",')
    lines.append("];")
    src = "\n".join(lines) + "\n"
    p = os.path.join(outdir, "c14_table.rs")
    if not os.path.exists(p) or open(p).read() != src:
        open(p, "w").write(src)
    return {"c14_universe_size": n, "c14_pairs": n * (n - 1) // 2}
