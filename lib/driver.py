"""Common driver: regenerate -> cargo kani (sharded) -> classify -> native replay -> evidence."""
import argparse, json, os, re, resource, shutil, subprocess, sys, time, hashlib
from concurrent.futures import ThreadPoolExecutor

ROOT = os.path.dirname(os.path.dirname(os.path.abspath(__file__)))
REPO = os.environ.get("VERIF_REPO", "/repo")
KANI_DIR = os.path.join(ROOT, ".kani")
sys.path.insert(0, os.path.join(ROOT, "lib"))
import props as P  # noqa: E402
import gen as G    # noqa: E402

ENV = dict(os.environ, CARGO_NET_OFFLINE="true", CARGO_TERM_COLOR="never")
ENV.pop("RUSTUP_TOOLCHAIN", None)


def log(*a):
    print(*a, flush=True)


def _limit(mem_gb):
    def f():
        b = int(mem_gb * (1 << 30))
        resource.setrlimit(resource.RLIMIT_AS, (b, b))
        os.setsid()
    return f


def crate_dir(crate):
    return os.path.join(ROOT, "harness", crate)


def prepare_crate(crate):
    """Regenerate everything that is derived from /repo's current tree."""
    d = crate_dir(crate)
    os.makedirs(os.path.join(d, "src", "gen"), exist_ok=True)
    shutil.copyfile(os.path.join(REPO, "Cargo.lock"), os.path.join(d, "Cargo.lock"))
    info = G.generate(crate, REPO, os.path.join(d, "src", "gen"))
    # playback include files must exist for every module
    for f in os.listdir(os.path.join(d, "src")):
        m = re.match(r"(c\d\d\w*)\.rs$", f)
        if m:
            p = os.path.join(d, "src", "gen", f"playback_{m.group(1)}.rs")
            if not os.path.exists(p):
                open(p, "w").write("")
    return info


def feat_args(features):
    return ["--features", ",".join(features)] if features else []


RE_HNAME = re.compile(r"^\s*(?:[a-z_0-9]+!\s*[({]\s*|(?:pub(?:\(crate\))? )?fn\s+)(c\d\d[a-z0-9]*_(?:q|t|x|xq)_\w+)")


def list_harnesses(crate, features):
    """Harness discovery from the harness crate's source: every harness is introduced either as
    `fn <name>` or as the first argument of a harness macro, named cNN_<tier>_<family>_<instance>;
    the fully qualified name is <module file stem>::<name>.  (`cargo kani list` would do a full
    codegen of every harness and takes minutes.)  A name that does not exist makes Kani fail with
    'Failed to match', which the driver reports as inconclusive, never as success."""
    d = os.path.join(crate_dir(crate), "src")
    out = []
    for f in sorted(os.listdir(d)):
        if not f.endswith(".rs"):
            continue
        mod = f[:-3]
        feat_gate = None
        for line in open(os.path.join(d, f)):
            m = re.match(r"\s*//\s*FEATURE-GATE:\s*(\w+)", line)
            if m:
                feat_gate = m.group(1)
            m = re.match(r"\s*//\s*END-FEATURE-GATE", line)
            if m:
                feat_gate = None
            m = RE_HNAME.match(line)
            if m:
                if feat_gate and feat_gate not in features:
                    continue
                out.append(f"{mod}::{m.group(1)}")
    return sorted(set(out))


def load_timings():
    try:
        return json.load(open(os.path.join(ROOT, "timings.json")))
    except Exception:
        return {}


def shard(harnesses, n, timings):
    hs = sorted(harnesses, key=lambda h: -timings.get(h, 40))
    bins = [[0.0, []] for _ in range(max(1, n))]
    for h in hs:
        b = min(bins, key=lambda x: x[0])
        b[0] += timings.get(h, 40)
        b[1].append(h)
    return [b[1] for b in bins if b[1]]


RE_CHECK = re.compile(r"^Checking harness (\S+?)\.\.\.")


def parse_stdout(text):
    """Per-harness blocks from terse output (robust against a killed process)."""
    res, cur = {}, None
    for line in text.splitlines():
        m = RE_CHECK.match(line)
        if m:
            cur = m.group(1)
            res[cur] = {"status": "INCOMPLETE", "failed_checks": [], "raw": []}
            continue
        if cur is None:
            continue
        res[cur]["raw"].append(line)
        if line.startswith("VERIFICATION:- "):
            res[cur]["status"] = line.split(":- ")[1].strip().split(" ")[0]  # "SUCCESSFUL (encountered ... panics as expected)"
        m = re.match(r"Verification Time: ([\d.]+)s", line)
        if m:
            res[cur]["time_s"] = float(m.group(1))
        m = re.match(r"Failed Checks: (.*)", line)
        if m:
            res[cur]["failed_checks"].append(m.group(1))
        m = re.match(r" \*\* (\d+) of (\d+) cover properties satisfied", line)
        if m:
            res[cur]["cover_sat"], res[cur]["cover_total"] = int(m.group(1)), int(m.group(2))
        m = re.match(r" \*\* (\d+) of (\d+) failed", line)
        if m:
            res[cur]["n_failed"], res[cur]["n_checks"] = int(m.group(1)), int(m.group(2))
        if "CBMC failed" in line or "timed out" in line.lower() or "out of memory" in line.lower():
            res[cur].setdefault("notes", []).append(line.strip())
    return res


def run_shard(crate, features, idx, harnesses, timeout_s, mem_gb, extra=()):
    d = crate_dir(crate)
    key = f"{crate}-{'_'.join(features) or 'nofeat'}-s{idx}"
    tdir = os.path.join(KANI_DIR, key)
    os.makedirs(tdir, exist_ok=True)
    jpath = os.path.join(tdir, "result.json")
    if os.path.exists(jpath):
        os.remove(jpath)
    cmd = ["cargo", "kani", "-Z", "stubbing", "-Z", "unstable-options", "--exact",
           "--output-format", "terse", "--harness-timeout", f"{timeout_s}s",
           "--export-json", jpath, "--target-dir", tdir] + feat_args(features) + list(extra)
    for h in harnesses:
        cmd += ["--harness", h]
    t0 = time.time()
    total_to = timeout_s * len(harnesses) + 900
    logp = os.path.join(tdir, "log.txt")
    with open(logp, "w") as lf:
        p = subprocess.Popen(cmd, cwd=d, env=ENV, stdout=lf, stderr=subprocess.STDOUT,
                             preexec_fn=_limit(mem_gb))
        try:
            p.wait(timeout=total_to)
        except subprocess.TimeoutExpired:
            try:
                os.killpg(p.pid, 9)
            except Exception:
                pass
            p.wait()
    text = open(logp, errors="replace").read()
    res = parse_stdout(text)
    js = None
    if os.path.exists(jpath):
        try:
            js = json.load(open(jpath))
        except Exception:
            js = None
    return {"key": key, "harnesses": harnesses, "stdout": res, "json": js, "rc": p.returncode,
            "wall_s": time.time() - t0, "log": logp, "text_tail": text[-4000:]}


def repo_fn(check):
    f = (check.get("location") or {}).get("file") or ""
    if "/repo/crates/" in f or f.startswith("../../../repo/") or "repo/crates" in f:
        return check.get("function")
    return None


def digest_json(js):
    """harness -> details from the exported JSON."""
    out = {}
    if not js:
        return out
    stats = {c["harness_id"]: c.get("cbmc_stats", {}) for c in js.get("cbmc", [])}
    pd = {c["harness_id"]: c.get("property_details", {}) for c in js.get("property_details", [])}
    for r in js.get("verification_results", {}).get("results", []):
        hid = r["harness_id"]
        fns, failed, covers = set(), [], []
        for c in r.get("checks", []):
            fn = repo_fn(c)
            if fn:
                fns.add(fn)
            st = c.get("status")
            if c.get("category") == "cover" or st in ("Satisfied", "Unsatisfiable"):
                covers.append({"description": c.get("description"), "status": st})
            elif st not in ("Success", "Unreachable", "Undetermined"):
                failed.append({"description": c.get("description"), "function": c.get("function"),
                               "category": c.get("category"), "status": st,
                               "where": f'{(c.get("location") or {}).get("file")}:{(c.get("location") or {}).get("line")}'})
        out[hid] = {"status": r.get("status"), "duration_ms": r.get("duration_ms"),
                    "repo_functions": sorted(fns), "failed": failed, "covers": covers,
                    "cbmc_stats": stats.get(hid, {}), "property_details": pd.get(hid, {})}
    return out


def classify(h, so, jd, is_twin):
    """-> (verdict, reason)  verdict in ok / cex / inconclusive / twin_ok"""
    st = (so or {}).get("status", "MISSING")
    failed_desc = [f["description"] or "" for f in (jd or {}).get("failed", [])] or (so or {}).get("failed_checks", [])
    if st == "SUCCESSFUL":
        if is_twin:
            return "inconclusive", "deliberately wrong twin was NOT refuted: harness is vacuous or too weak"
        ct, cs = (so or {}).get("cover_total"), (so or {}).get("cover_sat")
        if ct is not None and cs != ct:
            return "inconclusive", f"vacuity: only {cs} of {ct} cover witnesses satisfied"
        return "ok", ""
    if st == "FAILED":
        if any("unwinding assertion" in d for d in failed_desc):
            return "inconclusive", "unwinding assertion failed: bound too small for the current code"
        if not failed_desc:
            ct, cs = (so or {}).get("cover_total"), (so or {}).get("cover_sat")
            if ct is not None and cs != ct:
                return "inconclusive", f"vacuity: only {cs} of {ct} cover witnesses satisfied"
            return "inconclusive", "FAILED without a failed check (solver error / OOM / unsupported construct)"
        if any("is not currently supported by Kani" in d or "unsupported" in d.lower() for d in failed_desc) and not any("TWIN" in d for d in failed_desc):
            return "inconclusive", "reached a construct Kani does not support: " + "; ".join(failed_desc)[:300]
        if is_twin:
            if any("TWIN" in d for d in failed_desc):
                return "twin_ok", ""
            return "inconclusive", "twin failed, but not at its TWIN assertion: " + "; ".join(failed_desc)[:300]
        return "cex", "; ".join(failed_desc)[:500]
    return "inconclusive", f"no verdict ({st}): timeout, out of memory, or tool crash"


# ----------------------------------------------------------------------------------------------
# native replay


def extract_playback(text):
    """All concrete-playback tests Kani printed for the harness, except those generated for
    `cover` witnesses (those replay a *satisfied* witness, not the failed check)."""
    blocks = re.findall(r"Concrete playback unit test for `([^`]+)`:\s*```\s*(.*?)```", text, re.S)
    keep = [b for (_h, b) in blocks if "Check for `cover`" not in b]
    if not keep:
        return None, None
    return blocks[0][0], "\n".join(keep)


def playback_for(crate, features, harness, timeout_s, mem_gb):
    """Ask Kani for the concrete counterexample of one failing harness."""
    d = crate_dir(crate)
    tdir = os.path.join(KANI_DIR, f"{crate}-{'_'.join(features) or 'nofeat'}-cex")
    cmd = ["cargo", "kani", "-Z", "stubbing", "-Z", "unstable-options", "-Z", "concrete-playback",
           "--concrete-playback=print", "--exact", "--output-format", "terse",
           "--harness-timeout", f"{timeout_s}s", "--target-dir", tdir, "--harness", harness] + feat_args(features)
    r = subprocess.run(cmd, cwd=d, env=ENV, capture_output=True, text=True, preexec_fn=_limit(mem_gb))
    return extract_playback(r.stdout + r.stderr)


def native_replay(crate, features, harness, test_src):
    """Run the playback test(s) against the real crates natively (dev profile, then release settings).
    Every test runs in its OWN process: harnesses keep observations in statics, which Kani resets per
    harness but a test binary shares between tests.  returns ([dev reproduced, release reproduced], outputs)"""
    mod = harness.split("::")[-2] if "::" in harness else None
    d = crate_dir(crate)
    gfile = os.path.join(d, "src", "gen", f"playback_{mod}.rs")
    open(gfile, "w").write(test_src)
    names = re.findall(r"fn (kani_concrete_playback_\w+)\(", test_src)
    outs, repro = [], []
    try:
        for prof in ([], ["--release"]):
            env = dict(ENV, CARGO_TARGET_DIR=os.path.join(KANI_DIR, f"playback-{crate}"))
            if prof:
                # `cargo kani playback` has no --release: give the dev profile release settings via env
                env["CARGO_PROFILE_DEV_OPT_LEVEL"] = "3"
                env["CARGO_PROFILE_DEV_DEBUG_ASSERTIONS"] = "false"
                env["CARGO_PROFILE_DEV_OVERFLOW_CHECKS"] = "false"
                env["CARGO_TARGET_DIR"] = os.path.join(KANI_DIR, f"playback-{crate}-rel")
            failed, tail = False, ""
            for nm in names:
                cmd = ["cargo", "kani", "playback", "-Z", "concrete-playback", "-Z", "stubbing", "--lib"] + feat_args(features) + \
                      ["--", "--exact", f"{mod}::{nm}", "--test-threads", "1"]
                r = subprocess.run(cmd, cwd=d, env=env, capture_output=True, text=True)
                out = r.stdout + r.stderr
                ran = re.search(r"test result: (\w+)\. (\d+) passed; (\d+) failed", out)
                # a harness that aborts the test process (panic inside a destructor) is a reproduction too
                crashed = (ran is None) and re.search(r"\(signal: \d+", out) and "running 1 test" in out
                if (ran and int(ran.group(3)) > 0) or crashed:
                    failed, tail = True, out[-3000:]
                    break
                if ran is None or int(ran.group(2)) != 1:
                    tail = out[-3000:]  # the test did not run: treated as not reproduced, output kept
            outs.append(tail)
            repro.append(failed)
    finally:
        open(gfile, "w").write("")
    return repro, outs


def enumerate_playback_tests(harness, spec, limit=256):
    """Concrete-playback tests for EVERY assignment of a harness whose symbolic inputs are tiny."""
    import itertools
    fn = harness.split("::")[-1]
    doms = [range(hi) for (_nb, hi) in spec]
    total = 1
    for d in doms:
        total *= len(d)
    if total > limit:
        return None
    out = []
    for k, vals in enumerate(itertools.product(*doms)):
        vecs = ", ".join("vec![" + ", ".join(str(b) for b in int(v).to_bytes(nb, "little")) + "]" for v, (nb, _hi) in zip(vals, spec))
        out.append(f"#[test]\nfn kani_concrete_playback_{fn}_enum{k}() {{\n    let concrete_vals: Vec<Vec<u8>> = vec![{vecs}];\n"
                   f"    kani::concrete_playback_run(concrete_vals, {fn});\n}}\n")
    return "\n".join(out)


def write_replay_file(prop, crate, features, harness, test_src, desc):
    d = os.path.join(ROOT, "replay", prop)
    os.makedirs(d, exist_ok=True)
    name = re.sub(r"\W+", "_", harness) + ".replay.json"
    p = os.path.join(d, name)
    json.dump({"property": prop, "crate": crate, "features": features, "harness": harness,
               "failed_check": desc, "playback_test": test_src}, open(p, "w"), indent=1)
    return p


# ----------------------------------------------------------------------------------------------


def load_known():
    try:
        return json.load(open(os.path.join(ROOT, "known_findings.json")))
    except Exception:
        return {"findings": [], "fixed": []}


def match_known(known, prop, harness, desc):
    for k in known.get("findings", []):
        if k.get("property") != prop:
            continue
        if re.fullmatch(k["harness"], harness.split("::")[-1]) and re.search(k["failed_check"], desc or ""):
            return k
    return None


def run_property(prop, tier, jobs, only, seed, timeout_override=0):
    t0 = time.time()
    cfg = P.PROPS[prop]
    known = load_known()
    lim = P.TIERS[tier]
    jobs = jobs or cfg.get("jobs", {}).get(tier, lim["jobs"])
    per_h_timeout = timeout_override or cfg.get("timeout_s", {}).get(tier, lim["harness_timeout_s"])
    mem_gb = cfg.get("mem_gb", {}).get(tier, lim["mem_gb"])
    timings = load_timings()
    units, gen_info = [], {}
    for unit in cfg["units"]:
        crate, features = unit["crate"], unit.get("features", [])
        if tier == "quick" and unit.get("thorough_only"):
            continue
        gi = prepare_crate(crate)
        gen_info.update(gi or {})
        allh = list_harnesses(crate, features)
        pref = unit["prefix"]
        sel = []
        for h in allh:
            fn = h.split("::")[-1]
            m = re.match(rf"{pref}_(q|t|x|xq)_", fn)
            if not m:
                continue
            kind = m.group(1)
            if tier == "quick" and kind in ("t", "x"):
                continue
            if unit.get("only") and not re.search(unit["only"], fn):
                continue
            if only and not re.search(only, fn):
                continue
            sel.append(h)
        units.append((crate, features, sel))
    results, shards_meta = {}, []
    work = []
    total_h = sum(len(u[2]) for u in units)
    if total_h == 0:
        log(f"no harness selected for {prop}/{tier}")
        return 2
    for crate, features, sel in units:
        if not sel:
            continue
        n = max(1, min(jobs, (len(sel) + 2) // 3))
        for i, sh in enumerate(shard(sel, n, timings)):
            work.append((crate, features, i, sh))
    log(f"[{prop}/{tier}] {total_h} harnesses in {len(work)} kani processes, <= {jobs} in parallel, "
        f"{per_h_timeout}s per harness, {mem_gb} GB per process")
    with ThreadPoolExecutor(max_workers=jobs) as ex:
        futs = [ex.submit(run_shard, c, f, i, sh, per_h_timeout, mem_gb) for c, f, i, sh in work]
        for (c, f, i, sh), fu in zip(work, futs):
            r = fu.result()
            jd = digest_json(r["json"])
            shards_meta.append({"key": r["key"], "rc": r["rc"], "wall_s": round(r["wall_s"], 1), "n": len(sh)})
            if not r["stdout"] and r["rc"] != 0:
                log(f"--- shard {r['key']} produced no harness output (rc={r['rc']}):\n{r['text_tail']}")
            for h in sh:
                results[h] = {"crate": c, "features": f, "so": r["stdout"].get(h), "jd": jd.get(h), "log": r["log"]}

    # classify
    new_timings = {}
    report, violations, known_hits, inconclusive, extra_cex = [], [], [], [], []
    for h, r in sorted(results.items()):
        fn = h.split("::")[-1]
        is_twin = bool(re.match(r"c\d\d\w*?_(x|xq)_", fn))
        verdict, reason = classify(h, r["so"], r["jd"], is_twin)
        t = (r["so"] or {}).get("time_s")
        if t is not None:
            new_timings[h] = round(t, 1)
        entry = {"harness": h, "verdict": verdict, "reason": reason, "solver_wall_s": t,
                 "bounds": P.describe(fn), "features": r["features"],
                 "cover_witnesses": (r["jd"] or {}).get("covers", []),
                 "checks": (r["jd"] or {}).get("property_details", {}),
                 "cbmc": (r["jd"] or {}).get("cbmc_stats", {}),
                 "repo_functions": (r["jd"] or {}).get("repo_functions", [])}
        report.append(entry)
        if verdict == "cex" and violations:
            # one reproduced violation decides the run; further counterexamples are listed, not replayed
            entry["verdict"] = "cex_not_replayed"
            entry["reason"] = "counterexample (not replayed: a violation of this property was already reproduced): " + reason
            log(f"  counterexample in {h}: {reason}  (not replayed)")
            extra_cex.append(entry)
        elif verdict == "cex":
            log(f"  counterexample in {h}: {reason}")
            spec = P.native_inputs(fn)
            test_src = enumerate_playback_tests(h, spec) if spec else None
            if test_src:
                entry["replay_mode"] = "all assignments of the harness's (tiny) symbolic input space, run natively"
            else:
                # trace generation for the playback is much slower than the verdict itself
                hn, test_src = playback_for(r["crate"], r["features"], h, max(3 * per_h_timeout, 2700), mem_gb)
            if not test_src:
                entry["verdict"] = "inconclusive"
                entry["reason"] = "solver reported a failure but no concrete playback could be produced (trace generation timed out?): " + reason
                inconclusive.append(entry)
                log(f"  INCONCLUSIVE {h}: {entry['reason']}")
                continue
            repro, outs = native_replay(r["crate"], r["features"], h, test_src)
            entry["native_replay"] = {"dev_reproduced": repro[0], "release_reproduced": repro[1]}
            if not any(repro):
                entry["verdict"] = "inconclusive"
                entry["reason"] = "counterexample does NOT reproduce natively (encoding or stub is wrong): " + reason
                inconclusive.append(entry)
                log(f"  INCONCLUSIVE {h}: {entry['reason']}")
                log(outs[0][-1500:])
                continue
            path = write_replay_file(prop, r["crate"], r["features"], h, test_src, reason)
            entry["replay"] = path
            k = match_known(known, prop, h, reason)
            if k:
                entry["verdict"] = "known_finding"
                known_hits.append((k, entry))
            else:
                violations.append(entry)
        elif verdict == "inconclusive":
            inconclusive.append(entry)
            log(f"  INCONCLUSIVE {h}: {reason}   (log: {r['log']})")
    # persist timing hints next to (not in) the evidence
    try:
        allt = load_timings()
        allt.update(new_timings)
        json.dump(allt, open(os.path.join(KANI_DIR, "timings.last.json"), "w"), indent=0, sort_keys=True)
    except Exception:
        pass

    ok = [e for e in report if e["verdict"] in ("ok", "twin_ok")]
    fns = sorted({f for e in report for f in e["repo_functions"]})
    nontrivial = [e for e in report if e["verdict"] == "ok" and e["cover_witnesses"]
                  and all(c["status"] == "SATISFIED" or c["status"] == "Satisfied" for c in e["cover_witnesses"])]
    ev = {
        "property_id": prop, "tier": tier, "seed": seed, "level": "model_checking",
        "coverage": {
            "evaluations": len(report),
            "distinct_nontrivial": len(nontrivial),
            "rule": "one evaluation = one bounded-model-checking query (Kani harness -> CBMC -> CaDiCaL) over the real "
                    "code compiled from /repo's working tree; a query is counted non-trivial when it was discharged AND "
                    "every kani::cover! reachability witness placed in it was SATISFIED (harness names are distinct by construction)",
            "obligations": len(report), "discharged": len(ok),
            "exhaustive": False,
            "explanation": cfg["scope"],
            "bounds": cfg["bounds"],
            "outside_claim": cfg["outside"],
            "twins_refuted": len([e for e in report if e["verdict"] == "twin_ok"]),
            "functions_encoded": fns,
            "generated_from_repo": gen_info,
            "cbmc_properties_checked": sum(((e["checks"] or {}).get("total_properties") or 0) for e in report),
            "solver_wall_s_total": round(sum(e["solver_wall_s"] or 0 for e in report), 1),
            "kani_processes": shards_meta,
            "checker_cmd": "cargo kani -Z stubbing -Z unstable-options --exact --output-format terse --harness <h> (Kani 0.68.0, CBMC 6.11.0, CaDiCaL)",
            "samples": [{k: e[k] for k in ("harness", "verdict", "bounds", "solver_wall_s", "cover_witnesses", "checks", "reason")}
                        for e in report],
            "known_findings_hit": [{"id": k["id"], "harness": e["harness"]} for k, e in known_hits],
            "inconclusive": [{"harness": e["harness"], "reason": e["reason"]} for e in inconclusive],
            "further_counterexamples_not_replayed": [e["harness"] for e in extra_cex],
        },
        "assumptions": cfg["assumptions"],
        "wall_s": round(time.time() - t0, 1),
        "violations": len(violations),
    }
    os.makedirs(os.path.join(ROOT, "evidence"), exist_ok=True)
    json.dump(ev, open(os.path.join(ROOT, "evidence", f"{prop}.json"), "w"), indent=1)

    for k, e in known_hits:
        log(f"KNOWN-FINDING: property={prop} {k['what']} (harness {e['harness']}, replay {e['replay']})")
    for e in violations:
        log(f"VIOLATION property={prop} replay={e['replay']}")
        log(f"  harness {e['harness']}: {e['reason']}")
    log(f"[{prop}/{tier}] {len(ok)}/{len(report)} obligations discharged, {len(violations)} violations, "
        f"{len(known_hits)} known findings, {len(inconclusive)} inconclusive, wall {ev['wall_s']}s")
    if violations:
        return 1
    if inconclusive:
        return 2
    return 0


def do_replay(prop, path):
    j = json.load(open(path))
    prepare_crate(j["crate"])
    repro, outs = native_replay(j["crate"], j["features"], j["harness"], j["playback_test"])
    log(outs[0][-2500:])
    log(f"replay of {j['harness']}: dev reproduced={repro[0]} release reproduced={repro[1]}")
    if any(repro):
        log(f"VIOLATION property={j['property']} replay={path}")
        return 1
    return 0


def do_setup():
    """Warm the dependency builds (offline) so the first check is not dominated by compiling deps."""
    rc = 0
    for crate, features in P.SETUP_UNITS:
        prepare_crate(crate)
        hs = list_harnesses(crate, features)
        log(f"setup: {crate} {features}: {len(hs)} harnesses listed")
    return rc


def main(argv):
    ap = argparse.ArgumentParser()
    ap.add_argument("prop", nargs="?")
    ap.add_argument("--tier", default=os.environ.get("VERIF_TIER", "quick"), choices=["quick", "thorough"])
    ap.add_argument("--jobs", type=int, default=0)
    ap.add_argument("--only", default=None)
    ap.add_argument("--timeout", type=int, default=0, help="override per-harness timeout (s)")
    ap.add_argument("--replay", default=None)
    ap.add_argument("--setup", action="store_true")
    a = ap.parse_args(argv)
    os.makedirs(KANI_DIR, exist_ok=True)
    if a.setup:
        return do_setup()
    if a.prop not in P.PROPS:
        log(f"unknown or unclaimed property {a.prop}; claimed: {sorted(P.PROPS)}")
        return 2
    if a.replay:
        return do_replay(a.prop, a.replay)
    seed = int(os.environ.get("VERIF_SEED", "0") or 0)
    return run_property(a.prop, a.tier, a.jobs, a.only, seed, a.timeout)
