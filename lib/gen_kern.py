"""Source extraction for the `kern` harness crate.

Every run copies / cuts the *current* text of the kernels out of /repo and compiles exactly that
text inside the harness crate (no model, no hand translation).  Three mechanisms:

  copy      whole file, verbatim, optionally with (a) the listed one-line substitutions, each of which
            is a documented stub (e.g. std HashMap -> linear shim with the same API), and (b) a driver
            appended at the end of the module so that private items can be driven
  items     brace-matched cut of named items (fn / struct / enum / impl blocks) out of a file
  missing   if an item or a substitution anchor is not found the run is INCONCLUSIVE (exit 2)
"""
import hashlib, os, re


class ExtractError(Exception):
    pass


def sha(s):
    return hashlib.sha256(s.encode()).hexdigest()[:16]


def _match_brace(src, i):
    """src[i] == '{' -> index after the matching '}' (skips strings, chars, comments)."""
    depth, n = 0, len(src)
    while i < n:
        c = src[i]
        if src.startswith("//", i):
            i = src.index("\n", i)
            continue
        if src.startswith("/*", i):
            i = src.index("*/", i) + 2
            continue
        if c == '"':
            i += 1
            while src[i] != '"':
                i += 2 if src[i] == "\\" else 1
            i += 1
            continue
        if c == "'":
            # char literal or lifetime
            m = re.match(r"'(\\.|[^\\'])'", src[i:])
            if m:
                i += m.end()
                continue
        if c == "{":
            depth += 1
        elif c == "}":
            depth -= 1
            if depth == 0:
                return i + 1
        i += 1
    raise ExtractError("unbalanced braces")


def _attr_start(src, start):
    """Move `start` (offset of an item header line) backwards over its doc comments and attributes."""
    lines = src[:start].split("\n")
    # lines[-1] is the (whitespace) text before the header on its own line
    j = len(lines) - 2
    while j >= 0:
        t = lines[j].strip()
        if t.startswith("#[") or t.startswith("///") or t.startswith("//"):
            j -= 1
            continue
        if t.endswith(")]") and not t.startswith("#["):
            # tail of a multi-line attribute: walk up to its `#[`
            k = j
            while k >= 0 and not lines[k].strip().startswith("#["):
                k -= 1
            if k >= 0:
                j = k - 1
                continue
        break
    return len("\n".join(lines[:j + 1])) + (1 if j >= 0 else 0)


def cut_item(src, header_re, which=0, with_attrs=True):
    """Cut the item whose header matches header_re (regex, multi-line) up to its closing brace or ';'."""
    ms = list(re.finditer(header_re, src, re.M))
    if len(ms) <= which:
        raise ExtractError(f"item not found: {header_re}")
    m = ms[which]
    start = m.start()
    if with_attrs:
        start = _attr_start(src, start)
    i = m.end()
    while src[i] not in "{;":
        i += 1
    if src[i] == ";":
        return src[start:i + 1]
    end = _match_brace(src, i)
    return src[start:end]


def cut_all(src, header_re):
    out, k = [], 0
    while True:
        try:
            out.append(cut_item(src, header_re, which=k))
        except ExtractError:
            break
        k += 1
    if not out:
        raise ExtractError(f"item not found: {header_re}")
    return out


def cut_fn(src, name, which=0):
    return cut_item(src, rf"^[ \t]*(?:pub(?:\([a-z]+\))?\s+)?(?:const\s+)?(?:async\s+)?(?:unsafe\s+)?fn\s+{name}\b", which)


def fn_body(fn_text):
    i = fn_text.index("{", fn_text.index("fn "))
    # the body brace is the first '{' after the signature; signatures here contain no braces
    end = _match_brace(fn_text, i)
    return fn_text[i + 1:end - 1]


def read(repo, rel):
    return open(os.path.join(repo, rel)).read()


def write_if_changed(path, text):
    os.makedirs(os.path.dirname(path), exist_ok=True)
    if not os.path.exists(path) or open(path).read() != text:
        open(path, "w").write(text)


def substitute(text, subs, rel):
    for old, new in subs:
        if old not in text:
            raise ExtractError(f"substitution anchor not found in {rel}: {old!r}")
        text = text.replace(old, new)
    return text


def generate(repo, outdir, drivers_dir):
    info = {"extracted": {}}

    def copy(rel, dst, subs=(), driver=None, strip_tests=True, extra_driver=None):
        t = read(repo, rel)
        info["extracted"][rel] = {"sha256_16": sha(t), "mode": "whole file" + (" + appended driver" if driver else ""),
                                  "substitutions": [f"{a.strip()} -> {b.strip()}" for a, b in subs]}
        t = substitute(t, subs, rel)
        if strip_tests:
            t = re.sub(r"\n#\[cfg\(test\)\]\nmod tests?;\n", "\n", t)
        if extra_driver:
            t += "\n// ---- appended by /verif: generated from this file's own text ----\n" + substitute(open(os.path.join(drivers_dir, extra_driver)).read(), [x for x in subs if x[0] in open(os.path.join(drivers_dir, extra_driver)).read()], rel)
        if driver:
            t += "\n// ---- appended by /verif (driver for private items) ----\n" + open(os.path.join(drivers_dir, driver)).read()
        write_if_changed(os.path.join(outdir, dst), "// GENERATED from /repo/" + rel + " -- do not edit\n" + t)

    S = "crates/storage/src/"
    # --- write-behind (C10, C08)
    copy(S + "kv_database.rs", "kv_database.rs")
    copy(S + "write_batch.rs", "write_batch.rs")
    copy(S + "write_manager.rs", "write_manager.rs")
    # the committer thread's body is reused verbatim: `commit_worker` is cut, its channel receive loop
    # header is replaced by iteration over an array of arrivals, and the result is appended as
    # `commit_worker_driven` (so a change inside commit_worker is seen by the harness)
    wb_src = read(repo, S + "write_manager/write_behind.rs")
    cw = cut_fn(wb_src, "commit_worker")
    body = fn_body(cw)
    anchor = "while let Ok(task) = receiver.recv() {"
    if body.count(anchor) != 1:
        raise ExtractError("write_behind.rs: `commit_worker` no longer has exactly one `while let Ok(task) = receiver.recv()` loop")
    body = body.replace(anchor, "for task in tasks {")
    body = body.replace("drop(after_commit_sender);", "std::mem::forget(after_commit_sender);")
    driven = ("\nimpl<Db: KvDatabase> WriteBehind<Db> {\n"
              "    /// body of `commit_worker` (cut verbatim); only the loop header `while let Ok(task) = receiver.recv()`\n"
              "    /// is replaced by `for task in tasks`, and the final `drop(after_commit_sender)` by a forget\n"
              "    pub fn commit_worker_driven<const N: usize>(\n        tasks: [WriteTask<Db>; N],\n"
              "        after_commit_sender: crossbeam_channel::Sender<AfterCommitTask<Db>>,\n"
              "        shutting_down: &Arc<AtomicBool>,\n        db: &Db,\n    ) {" + body + "}\n}\n")
    open(os.path.join(drivers_dir, ".commit_worker_driven.rs"), "w").write(driven)
    copy(S + "write_manager/write_behind.rs", "write_behind.rs", driver="write_behind_driver.rs", extra_driver=".commit_worker_driven.rs",
         subs=[("    collections::{BinaryHeap, HashMap},\n", ""),
               ("use fxhash::FxBuildHasher;", "use fxhash::FxBuildHasher;\nuse crate::shim::{BinaryHeap, HashMap};"),
               ("std::collections::hash_map::Entry::", "crate::shim::hash_map::Entry::"),
               ("    processed_logical_batch: Vec<WriteBatch<Db>>,", "    processed_logical_batch: crate::shim::SVec<WriteBatch<Db>>,"),
               ("            processed_logical_batch: Vec::new(),", "            processed_logical_batch: Default::default(),")])
    # --- admission policy (C16); std HashMap -> shim with the same API (documented stub)
    copy(S + "tiny_lfu/lru.rs", "lru.rs",
         subs=[("use std::{collections::HashMap, ptr::NonNull};", "use std::ptr::NonNull;\nuse crate::shim::HashMap;")],
         driver="lru_driver.rs")
    copy(S + "tiny_lfu/policy.rs", "policy.rs", driver="policy_driver.rs")
    copy(S + "tiny_lfu/sketch.rs", "sketch.rs", driver="sketch_driver.rs")
    # --- key scheme of both shipped backends (C11): item extraction
    for backend, rel in (("rocks", S + "kv_database/rocksdb.rs"), ("fjall", S + "kv_database/fjall.rs")):
        src = read(repo, rel)
        names = ["encode_value", "encode_value_length_prefixed", "encode_wide_column_key"]
        if backend == "rocks":
            names += ["prefix_upper_bound", "transform_key"]
        fns = []
        for n in names:
            f = cut_fn(src, n)
            f = re.sub(r"^(\s*)fn ", r"\1pub fn ", f, count=1, flags=re.M)
            fns.append(f)
        # element slicing of the scan iterator: body of `Iterator::next` after the row has been fetched
        nxt = cut_fn(src, "next", which=1 if backend == "rocks" else 0)
        body = fn_body(nxt)
        marker = "let length = u64::from_le_bytes("
        if marker not in body or "Some(" not in body:
            raise ExtractError(f"{rel}: scan iterator `next` no longer has the expected shape")
        body = body[body.index(marker):]
        body = body.replace("self.inner_db.plugin", "self.plugin").replace("self.db.plugin", "self.plugin")
        body = body.replace("key_bytes", "key")
        scan = ("    #[allow(clippy::cast_possible_truncation)]\n    pub fn scan_decode_element<C: KeyOfSetColumn>(&self, key: &[u8]) -> Option<C::Element> {\n        "
                + body.strip() + "\n    }\n")
        # call sites: which encoders each public operation composes into its store key
        sites = []
        site_names = []
        for fname, kind in (("put", "wide"), ("delete", "wide"), ("get_wide_column", "wide"),
                            ("insert_member", "set"), ("delete_member", "set"), ("scan_members", "scan")):
            k = 0
            while True:
                try:
                    ftxt = cut_fn(src, fname, which=k)
                except ExtractError:
                    break
                stmts = re.findall(r"(?:self\.db|self\.0|x)\s*\.\s*(encode_[a-z_]+(?:::<[^>]*>)?\([^;]*\));", ftxt)
                stmts = [st for st in stmts if "value_buffer" not in st]
                if not stmts:
                    raise ExtractError(f"{rel}: `{fname}` #{k} composes no key encoder any more")
                body = "".join(f"        self.{re.sub(chr(92)+'s+', ' ', st)};\n" for st in stmts)
                sig = {"wide": "<W: WideColumn, C: WideColumnValue<W>>(&self, key: &W::Key) -> Vec<u8>",
                       "set": "<C: KeyOfSetColumn>(&self, key: &C::Key, value: &C::Element) -> Vec<u8>",
                       "scan": "<C: KeyOfSetColumn>(&self, key: &C::Key) -> Vec<u8>"}[kind]
                name = f"site_{fname}_{k}"
                sites.append(f"    /// key composition at call site `{fname}` (occurrence {k})\n    pub fn {name}{sig} {{\n"
                             "        let (mut key_buffer, mut buffer, mut prefix_buffer) = (Vec::new(), Vec::new(), Vec::new());\n"
                             + body + "        [key_buffer, buffer, prefix_buffer].concat()\n    }\n")
                site_names.append(name)
                k += 1
        n_expected = {"put": 2, "delete": 2, "get_wide_column": 1, "insert_member": 2, "delete_member": 2, "scan_members": 1}
        for fname, n in n_expected.items():
            got = len([x for x in site_names if re.fullmatch(rf"site_{fname}_\d+", x)])
            if got != n:
                raise ExtractError(f"{rel}: expected {n} call sites of `{fname}`, found {got}")
        extra = ""
        if backend == "rocks":
            ext = cut_fn(src, "create_key_of_set_prefix_extractor")
            m = re.search(r"let in_domain = \|key: &\[u8\]\| -> bool \{(.*?)\};", ext, re.S)
            if not m:
                raise ExtractError(f"{rel}: in_domain closure not found")
            extra = "pub fn in_domain(key: &[u8]) -> bool {" + m.group(1) + "}\n"
        text = ("// GENERATED from /repo/" + rel + " (items cut verbatim; `fn` -> `pub fn`) -- do not edit\n"
                "use qbice_serialize::{Decode, Decoder, Encode, Encoder, Plugin, PostcardDecoder, PostcardEncoder};\n"
                "use crate::kv_database::{DiscriminantEncoding, KeyOfSetColumn, WideColumn, WideColumnValue};\n"
                "pub struct Impl { pub plugin: Plugin }\nimpl Impl {\n" + "\n\n".join(fns) + "\n\n" + scan + "\n" + "\n".join(sites) + "}\n" + extra)
        write_if_changed(os.path.join(outdir, f"{backend}_keys.rs"), text)
        info["extracted"][rel] = {"sha256_16": sha(src), "mode": "items: " + ", ".join(names) + ", scan-iterator next (element slicing)" + (", in_domain" if backend == "rocks" else ""),
                                  "items_sha256_16": sha(text)}

    # --- key-of-set staging overlay (C09): item extraction from key_of_set_map/cache.rs (+ 2 items of key_of_set_map.rs)
    rel = S + "key_of_set_map/cache.rs"
    src = read(repo, rel)
    rel2 = S + "key_of_set_map.rs"
    src2 = read(repo, rel2)
    items = []
    items += [cut_item(src2, r"^pub trait ConcurrentSet\b")]
    items += [cut_item(src2, r"^pub struct OwnedIterator<")]
    items += cut_all(src2, r"^impl<C: ConcurrentSet \+ 'static> Iterator for OwnedIterator<C>")
    items += [cut_item(src, r"^enum Operation<V>")]
    items += [cut_item(src, r"^enum Entry<C>")]
    items += [cut_item(src, r"^pub struct VersionedOperation<V>")]
    items += cut_all(src, r"^impl<V> \w+ for VersionedOperation<V>")
    items += [cut_item(src, r"^enum ConcurrentLogMessage<V>")]
    items += [cut_item(src, r"^struct ConcurrentLog<V>")]
    items += cut_all(src, r"^impl<V: Eq \+ Hash \+ Clone> ConcurrentLog<V>")
    items += [cut_item(src, r"^pub struct Spilled<")]
    items += [cut_item(src, r"^pub struct StagingShapshot<T>")]
    items += cut_all(src, r"^impl<T> StagingShapshot<T>")
    items += [cut_item(src, r"^pub struct StagingShapshotIntoIter<T>")]
    items += [cut_item(src, r"^pub enum MergeIterator<")]
    mi = cut_all(src, r"^impl<\s*C: ConcurrentSet<Element = E>,")
    items += mi
    fetch = cut_fn(src, "fetch_entry")
    apply_op = cut_fn(src, "apply_op")
    m = re.search(r"// apply the operation to the log\s*\{(.*?)\n        \}\n", apply_op, re.S)
    if not m:
        raise ExtractError(f"{rel}: `apply_op` no longer has the 'apply the operation to the log' block")
    stage_block = m.group(1)
    flush = cut_fn(src, "flush_staging")
    m2 = re.search(r"log\.apply_message\(ConcurrentLogMessage::FlushUpTo\(epoch\)\);", flush)
    if not m2:
        raise ExtractError(f"{rel}: `flush_staging` no longer sends FlushUpTo(epoch) to the log")
    body = "\n\n".join(items)
    body = body.replace("std::collections::hash_set::IntoIter<T>", "crate::shim::hash_set::IntoIter<T>")
    # visibility only: private top-level items become `pub` so that the harness can name their types
    body = re.sub(r"^(enum|struct) ", r"pub \1 ", body, flags=re.M)
    text = ("// GENERATED from /repo/" + rel + " and /repo/" + rel2 + " (items cut verbatim) -- do not edit\n"
            "#![allow(unused_imports, dead_code)]\n"
            "use std::{hash::Hash, ops::Not, marker::PhantomData, sync::{Arc, atomic::{AtomicU64, AtomicUsize, Ordering}}};\n"
            "use crossbeam::queue::SegQueue;\nuse fxhash::FxBuildHasher;\nuse parking_lot::RwLock;\nuse ouroboros::self_referencing;\n"
            "use crate::shim::{BinaryHeap, HashSet};\n"
            "use crate::kv_database::{KeyOfSetColumn, KvDatabase};\n"
            "use crate::write_manager::write_behind::Epoch;\n\n"
            + body +
            "\n\npub struct CacheKeyOfSetMap<K, C, Db> { pub db: Db, pub _p: PhantomData<(K, C)> }\n"
            "impl<K: KeyOfSetColumn, C: ConcurrentSet<Element = K::Element> + Send + Sync + 'static, Db: KvDatabase> CacheKeyOfSetMap<K, C, Db> {\n"
            + re.sub(r"^(\s*)fn fetch_entry", r"\1pub fn fetch_entry", fetch, count=1, flags=re.M) + "\n}\n\n"
            "/// the statement block of `apply_op` that stages one operation on a key's log (cut verbatim)\n"
            "pub fn stage_op<V: Eq + Hash + Clone>(log: &ConcurrentLog<V>, op: Operation<V>, epoch: Epoch) {\n        {" + stage_block + "\n        }\n}\n"
            "/// the call `flush_staging` makes on a key's log\n"
            "pub fn flush_log<V: Eq + Hash + Clone>(log: &ConcurrentLog<V>, epoch: Epoch) {\n    " + m2.group(0) + "\n}\n"
            + open(os.path.join(drivers_dir, "kos_driver.rs")).read())
    write_if_changed(os.path.join(outdir, "kos_cache.rs"), text)
    info["extracted"][rel] = {"sha256_16": sha(src), "mode": "items: Operation, Entry, VersionedOperation(+Ord impls), ConcurrentLogMessage, ConcurrentLog(+impl), Spilled, StagingShapshot(+impl), StagingShapshotIntoIter, MergeIterator(+Iterator impl), fn fetch_entry, staging block of apply_op, flush call of flush_staging",
                              "items_sha256_16": sha(text), "substitutions": ["std::collections::{BinaryHeap, HashSet} -> crate::shim::{BinaryHeap, HashSet}"]}
    info["extracted"][rel2] = {"sha256_16": sha(src2), "mode": "items: trait ConcurrentSet, OwnedIterator(+Iterator impl)"}

    # --- engine kernels (C05, C14): guard.rs (whole file), CalleeOrder + Mode + NodeDependency + QueryID (items)
    Q = "crates/qbice/src/"
    copy(Q + "engine/guard.rs", "guard.rs",
         subs=[("            tokio::spawn(future);", "            crate::c05::spawn_observer(future);")])
    rel = Q + "engine/computation_graph/computing.rs"
    src = read(repo, rel)
    rel_db = Q + "engine/computation_graph/database.rs"
    src_db = read(repo, rel_db)
    rel_q = Q + "query.rs"
    src_q = read(repo, rel_q)
    nd = cut_item(src_db, r"^pub enum NodeDependency\b")
    nd = substitute(nd, [("Encode, Decode, EnumAsInner,", "EnumAsInner,")], rel_db)
    qid = cut_item(src_q, r"^pub struct QueryID\b")
    qid = substitute(qid, [("pub struct QueryID {", "#[stable_hash_crate(qbice_stable_hash)]\n#[serialize_crate(qbice_serialize)]\n#[stable_type_id_crate(qbice_stable_type_id)]\npub struct QueryID {")], rel_q)
    qimpl = cut_item(src_q, r"^impl QueryID\b")
    qnew = cut_fn(qimpl, "new")
    qimpl = qimpl.replace(qnew, "    // (fn new<Q: Query> omitted: needs the Query trait)")
    text = ("// GENERATED from /repo/" + rel + ", " + rel_db + ", " + rel_q + " (items cut verbatim) -- do not edit\n"
            "#![allow(unused_imports, dead_code)]\n"
            "use enum_as_inner::EnumAsInner;\nuse qbice_serialize::{Decode, Encode};\nuse qbice_stable_hash::{Compact128, StableHash};\n"
            "use qbice_stable_type_id::{Identifiable, StableTypeID};\n\n"
            + qid + "\n\n" + qimpl + "\n\n"
            + (nd + "\n\n" + cut_item(src, r"^pub struct CalleeOrder\b") + "\n\n" + cut_item(src, r"^impl CalleeOrder\b")
               ).replace("Vec<", "crate::shim::SVec<").replace("Vec::new()", "crate::shim::SVec::new()") + "\n\n"
            + cut_item(src, r"^pub enum Mode\b") + "\n")
    write_if_changed(os.path.join(outdir, "engine_items.rs"), text)
    info["extracted"][rel] = {"sha256_16": sha(src), "mode": "items: CalleeOrder (+impl), Mode", "substitutions": ["Vec< -> crate::shim::SVec< (inline storage)"]}
    info["extracted"][rel_db] = {"sha256_16": sha(src_db), "mode": "items: NodeDependency (derive list without Encode/Decode)"}
    info["extracted"][rel_q] = {"sha256_16": sha(src_q), "mode": "items: QueryID (+impl without fn new<Q: Query>); derive crate-path attributes added"}

    write_if_changed(os.path.join(outdir, "tiny_lfu.rs"), "// GENERATED module shell (the real tiny_lfu.rs front needs scc and is outside reach)\npub mod lru;\npub mod policy;\npub mod sketch;\n")
    return info
