use bitvec::prelude::*;
use qbice_serialize::{Plugin, postcard::{encode, decode}};
fn main() {
    let p = Plugin::new();
    let mut bad = 0;
    for n in [0usize, 1, 7, 8, 9, 15, 16, 17, 63, 64, 65, 130] {
        let mut v: BitVec<u8, Lsb0> = BitVec::new();
        for i in 0..n { v.push(i % 3 == 0); }
        let b = encode(&v, &p).unwrap();
        let r: Result<BitVec<u8, Lsb0>, _> = std::panic::catch_unwind(|| decode::<BitVec<u8, Lsb0>>(&b, &Plugin::new())).unwrap_or_else(|_| Err(std::io::Error::other("panic")));
        let ok = matches!(&r, Ok(x) if *x == v);
        if !ok { bad += 1; println!("u8/Lsb0 len {n}: MISMATCH {:?}", r.map(|x| x.len())); }
        let mut v: BitVec<u8, Msb0> = BitVec::new();
        for i in 0..n { v.push(i % 3 == 0); }
        let b = encode(&v, &p).unwrap();
        let r = std::panic::catch_unwind(|| decode::<BitVec<u8, Msb0>>(&b, &Plugin::new())).unwrap_or_else(|_| Err(std::io::Error::other("panic")));
        let ok = matches!(&r, Ok(x) if *x == v);
        if !ok { bad += 1; println!("u8/Msb0 len {n}: MISMATCH {:?}", r.map(|x| x.len())); }
        let mut v: BitVec<usize, Lsb0> = BitVec::new();
        for i in 0..n { v.push(i % 3 == 0); }
        let b = encode(&v, &p).unwrap();
        let r = std::panic::catch_unwind(|| decode::<BitVec<usize, Lsb0>>(&b, &Plugin::new())).unwrap_or_else(|_| Err(std::io::Error::other("panic")));
        let ok = matches!(&r, Ok(x) if *x == v);
        if !ok { bad += 1; println!("usize/Lsb0 len {n}: MISMATCH {:?}", r.map(|x| x.len())); }
        let mut v: BitVec<u32, Msb0> = BitVec::new();
        for i in 0..n { v.push(i % 3 == 0); }
        let b = encode(&v, &p).unwrap();
        let r = std::panic::catch_unwind(|| decode::<BitVec<u32, Msb0>>(&b, &Plugin::new())).unwrap_or_else(|_| Err(std::io::Error::other("panic")));
        let ok = matches!(&r, Ok(x) if *x == v);
        if !ok { bad += 1; println!("u32/Msb0 len {n}: MISMATCH {:?}", r.map(|x| x.len())); }
    }
    println!("mismatches: {bad}");
}
