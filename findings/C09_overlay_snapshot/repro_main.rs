//! C09 reproduction through the public storage API: key-of-set map over a write-behind manager and
//! an in-memory KvDatabase whose `commit` can be held back (so operations stay staged).
use qbice_serialize::{Decode, Encode, Plugin, PostcardDecoder, PostcardEncoder, Decoder, Encoder};
use qbice_stable_type_id::Identifiable;
use qbice_storage::key_of_set_map::KeyOfSetMap;
use qbice_storage::kv_database::{KeyOfSetColumn, KvDatabase, SerializationBuffer, WideColumn, WideColumnValue, WriteBatch};
use qbice_storage::storage_engine::{db_backed::{Configuration, DbBacked}, StorageEngine};
use qbice_storage::write_manager::WriteManager;
use std::any::TypeId;
use std::collections::{BTreeMap, BTreeSet};
use std::sync::{Arc, Condvar, Mutex};

fn enc<T: Encode>(v: &T) -> Vec<u8> { let mut e = PostcardEncoder::new(Vec::new()); e.encode(v, &Plugin::new()).unwrap(); e.into_inner() }
fn dec<T: Decode>(b: &[u8]) -> T { PostcardDecoder::new(b).decode(&Plugin::new()).unwrap() }

#[derive(Default)]
struct Inner { sets: BTreeMap<(TypeId, Vec<u8>), BTreeSet<Vec<u8>>>, gate_open: bool, commits: usize }
#[derive(Clone)]
struct MemDb(Arc<(Mutex<Inner>, Condvar)>);
enum Op { Ins(TypeId, Vec<u8>, Vec<u8>), Del(TypeId, Vec<u8>, Vec<u8>) }
struct Buf(Vec<Op>);
struct Batch(MemDb, Vec<Op>);
impl SerializationBuffer for Buf {
    fn put<W: WideColumn, C: WideColumnValue<W>>(&mut self, _k: &W::Key, _v: &C) {}
    fn delete<W: WideColumn, C: WideColumnValue<W>>(&mut self, _k: &W::Key) {}
    fn insert_member<C: KeyOfSetColumn>(&mut self, k: &C::Key, v: &C::Element) { self.0.push(Op::Ins(TypeId::of::<C>(), enc(k), enc(v))); }
    fn delete_member<C: KeyOfSetColumn>(&mut self, k: &C::Key, v: &C::Element) { self.0.push(Op::Del(TypeId::of::<C>(), enc(k), enc(v))); }
}
impl WriteBatch for Batch {
    type SerializationBuffer = Buf;
    fn put<W: WideColumn, C: WideColumnValue<W>>(&mut self, _k: &W::Key, _v: &C) {}
    fn delete<W: WideColumn, C: WideColumnValue<W>>(&mut self, _k: &W::Key) {}
    fn insert_member<C: KeyOfSetColumn>(&mut self, k: &C::Key, v: &C::Element) { self.1.push(Op::Ins(TypeId::of::<C>(), enc(k), enc(v))); }
    fn delete_member<C: KeyOfSetColumn>(&mut self, k: &C::Key, v: &C::Element) { self.1.push(Op::Del(TypeId::of::<C>(), enc(k), enc(v))); }
    fn consume_serialization_buffer(&mut self, b: Buf) { self.1.extend(b.0); }
    fn commit(self) {
        let (m, cv) = &*(self.0).0;
        let mut g = m.lock().unwrap();
        if self.1.is_empty() { return; }
        while !g.gate_open { g = cv.wait(g).unwrap(); }
        for op in self.1 {
            match op {
                Op::Ins(t, k, v) => { g.sets.entry((t, k)).or_default().insert(v); }
                Op::Del(t, k, v) => { g.sets.entry((t, k)).or_default().remove(&v); }
            }
        }
        g.commits += 1;
        cv.notify_all();
    }
}
struct Scan<C: KeyOfSetColumn>(std::vec::IntoIter<Vec<u8>>, std::marker::PhantomData<C>);
impl<C: KeyOfSetColumn> Iterator for Scan<C> { type Item = C::Element; fn next(&mut self) -> Option<C::Element> { self.0.next().map(|b| dec(&b)) } }
unsafe impl<C: KeyOfSetColumn> Send for Scan<C> {}
impl KvDatabase for MemDb {
    type WriteBatch = Batch;
    type SerializationBuffer = Buf;
    type ScanMemberIterator<C: KeyOfSetColumn> = Scan<C>;
    fn get_wide_column<W: WideColumn, C: WideColumnValue<W>>(&self, _k: &W::Key) -> Option<C> { None }
    fn scan_members<C: KeyOfSetColumn>(&self, k: &C::Key) -> Scan<C> {
        let g = (self.0).0.lock().unwrap();
        let v: Vec<Vec<u8>> = g.sets.get(&(TypeId::of::<C>(), enc(k))).map(|s| s.iter().cloned().collect()).unwrap_or_default();
        Scan(v.into_iter(), std::marker::PhantomData)
    }
    fn write_batch(&self) -> Batch { Batch(self.clone(), Vec::new()) }
    fn serialization_buffer(&self) -> Buf { Buf(Vec::new()) }
}
impl MemDb {
    fn set_gate(&self, open: bool) { let (m, cv) = &*self.0; m.lock().unwrap().gate_open = open; cv.notify_all(); }
    fn wait_commits(&self, n: usize) { let (m, cv) = &*self.0; let mut g = m.lock().unwrap(); while g.commits < n { g = cv.wait(g).unwrap(); } }
}

#[derive(Identifiable)]
#[stable_type_id_crate(qbice_stable_type_id)]
struct Col;
impl KeyOfSetColumn for Col { type Key = u32; type Element = u32; }
type Set = Arc<dashmap::DashSet<u32>>;

async fn read<M: KeyOfSetMap<Col, Set>>(m: &M, k: u32) -> BTreeSet<u32> { m.get(&k).await.collect() }

#[tokio::main(flavor = "current_thread")]
async fn main() {
    let mut bad = 0;
    // ---- scenario 1: durable member, re-inserted and then removed while both operations are staged
    {
        let db = MemDb(Arc::new((Mutex::new(Inner::default()), Condvar::new())));
        db.set_gate(true);
        let eng = DbBacked::new(db.clone(), Configuration::builder().cache_capacity(16).build());
        let wm = eng.new_write_manager();
        let map = eng.new_key_of_set_map::<Col, Set>();
        let mut b = wm.new_write_batch(); map.insert(7, 1, &mut b).await; wm.submit_write_batch(b);
        db.wait_commits(1); // member 1 of key 7 is durable now
        std::thread::sleep(std::time::Duration::from_millis(200)); // let the after-commit flush run
        db.set_gate(false); // hold back further commits: the next operations stay staged
        let mut b = wm.new_write_batch(); map.insert(7, 1, &mut b).await; wm.submit_write_batch(b);
        let mut b = wm.new_write_batch(); map.remove(&7, &1, &mut b).await; wm.submit_write_batch(b);
        let got = read(&map, 7).await;
        println!("scenario 1 (insert durable member again, then remove it): read = {:?}, expected {{}}", got);
        if !got.is_empty() { bad += 1; println!("  STALE: removed member is still returned"); }
        db.set_gate(true);
        drop(wm);
    }
    // ---- scenario 2: insert, remove, insert of a member that is not durable, all three staged
    {
        let db = MemDb(Arc::new((Mutex::new(Inner::default()), Condvar::new())));
        db.set_gate(false);
        let eng = DbBacked::new(db.clone(), Configuration::builder().cache_capacity(16).build());
        let wm = eng.new_write_manager();
        let map = eng.new_key_of_set_map::<Col, Set>();
        let mut b = wm.new_write_batch(); map.insert(7, 1, &mut b).await; wm.submit_write_batch(b);
        let mut b = wm.new_write_batch(); map.remove(&7, &1, &mut b).await; wm.submit_write_batch(b);
        let mut b = wm.new_write_batch(); map.insert(7, 1, &mut b).await; wm.submit_write_batch(b);
        let got = read(&map, 7).await;
        println!("scenario 2 (insert, remove, insert again; nothing durable yet): read = {:?}, expected {{1}}", got);
        if got != BTreeSet::from([1]) { bad += 1; println!("  LOST: inserted member is not returned"); }
        db.set_gate(true);
        drop(wm);
    }
    if bad > 0 { println!("C09 VIOLATED in {bad} scenario(s)"); std::process::exit(1); }
    println!("C09 holds in both scenarios");
}
