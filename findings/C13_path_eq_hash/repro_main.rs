use qbice_stable_hash::{BuildStableHasher, SeededStableHasherBuilder, Sip128Hasher, StableHash, StableHasher};
use std::path::{Path, PathBuf};
fn h<T: StableHash + ?Sized>(v: &T) -> u128 {
    let mut s = SeededStableHasherBuilder::<Sip128Hasher>::new(1).build_stable_hasher();
    v.stable_hash(&mut s);
    s.finish()
}
fn main() {
    let mut bad = 0;
    for (a, b) in [("a/", "a"), ("a//b", "a/b"), ("a/./b", "a/b"), ("/", "//"), ("a/b/", "a/b")] {
        let (pa, pb) = (PathBuf::from(a), PathBuf::from(b));
        let eq = pa == pb;
        let same = h(&pa) == h(&pb) && h(Path::new(a)) == h(Path::new(b));
        println!("{a:?} == {b:?}: {eq}; stable hashes equal: {same}");
        if eq && !same { bad += 1; }
    }
    println!("equal paths with different stable hashes: {bad}");
    if bad > 0 { std::process::exit(1); }
}
