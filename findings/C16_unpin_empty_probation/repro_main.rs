use qbice_storage::tiny_lfu::{LifecycleListener, MaintenanceMode, TinyLFU, UnpinStrategy, Entry};
use std::sync::atomic::{AtomicBool, Ordering};
use std::sync::Arc;

#[derive(Default)]
struct L;
impl LifecycleListener<u32, Arc<AtomicBool>> for L {
    fn is_pinned(&self, _k: &u32, v: &Arc<AtomicBool>) -> bool { v.load(Ordering::SeqCst) }
}
fn main() {
    let c: TinyLFU<u32, Arc<AtomicBool>, L> = TinyLFU::new(1, UnpinStrategy::Notify, MaintenanceMode::Piggyback);
    let ins = |k: u32, pinned: bool| c.entry(k, |e| match e { Entry::Vacant(v) => v.insert(Arc::new(AtomicBool::new(pinned))), Entry::Occupied(_) => {} });
    ins(0, false);
    ins(1, true); // pinned by its owner
    ins(2, false);
    // more traffic: crosses the maintenance batch threshold, the three inserts are processed now
    for k in 200..240u32 { c.unpin(k); }
    println!("after first maintenance: key1 resident: {}", c.get(&1).is_some());
    // owner removes key 0 explicitly
    c.entry(0, |e| if let Entry::Occupied(o) = e { let _ = o.remove(); });
    // owner un-pins key 1 and notifies the cache
    c.get_map(&1, |v| v.store(false, Ordering::SeqCst));
    c.unpin(1);
    // more traffic until the maintenance batch threshold is crossed
    let r = std::panic::catch_unwind(std::panic::AssertUnwindSafe(|| {
        for k in 100..140u32 { c.unpin(k); }
    }));
    match r {
        Ok(()) => println!("OK: no panic; key 1 readable: {}", c.get(&1).is_some()),
        Err(_) => { println!("PANIC inside cache maintenance"); std::process::exit(1); }
    }
}
